#!/bin/sh
# Offline setup: nothing to build. Syntax-check every specification so a broken spec fails here, not in a check.
cd /verif/specs || exit 1
rc=0
for f in *.tla; do
  java -cp /opt/veriftools/tla/tla2tools.jar:/opt/veriftools/tla/CommunityModules-deps.jar tla2sany.SANY "$f" > /tmp/sany.$$ 2>&1
  if grep -q -e "Fatal errors" -e "\*\*\* Errors" -e "Parse Error" -e "Could not parse" /tmp/sany.$$; then echo "SANY failed on $f"; cat /tmp/sany.$$; rc=1; fi
done
rm -f /tmp/sany.$$
/venv/bin/python -c "import batchie, numpy, h5py, pandas, scipy" || rc=1
exit $rc
