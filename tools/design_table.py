#!/venv/bin/python
"""Regenerates section 11.5 of DESIGN.md (between the SEEDED-TABLE markers) from seeded/*/meta.json, seeded/RESULTS-quick.json and
seeded/FIRSTPASS.json."""
import json, os, re
V = "/verif"
res = json.load(open(V + "/seeded/RESULTS-quick.json"))
first = {k: v for k, v in json.load(open(V + "/seeded/FIRSTPASS.json")).items() if not k.startswith("_")}
rows, n, caught = [], 0, 0
for sid in sorted(os.listdir(V + "/seeded")):
    d = os.path.join(V, "seeded", sid)
    if not os.path.isdir(d):
        continue
    m = json.load(open(d + "/meta.json"))
    r = res.get(sid, {})
    n += 1
    caught += bool(r.get("detected"))
    cl = lambda s, k: re.sub(r"\s+", " ", str(s or "")).replace("|", "/")[:k]
    status = ("caught" if r.get("detected") else ("NOT RUN" if not r else "MISSED (exit %s)" % r.get("exit")))
    how = cl(r.get("first", "").replace("what: ", ""), 150)
    fp = first.get(sid)
    rows.append("| %s | %s | %s | %s%s |" % (sid, cl(m.get("summary"), 170), cl(m.get("needs"), 120), status + (": " + how if how else ""),
                                              " **first pass: %s**" % cl(fp, 200) if fp else ""))
nf = sum(1 for k in first if k in res)
per_round = {}
for sid in sorted(os.listdir(V + "/seeded")):
    if os.path.isdir(os.path.join(V, "seeded", sid)):
        r_ = sid.split("-")[1][0]
        tot_, miss_ = per_round.get(r_, (0, 0))
        per_round[r_] = (tot_ + 1, miss_ + (1 if sid in first else 0))
rounds = ", ".join("%s*: %d changes, %d not caught on arrival" % (k, v[0], v[1]) for k, v in sorted(per_round.items(), key=lambda kv: "mnpqruvw".index(kv[0])))
head = ("%d seeded changes in eight rounds of independent sub-agents (m* round 1; n* round 2, given the one-line summaries of round 1 and asked for "
        "different clauses or mechanisms; p*, q*, r*, u* rounds 3-6, v* round 7 (one breaking change per property, paired with a property-preserving one under benign/), w* round 8 of breaking changes (one per property, in the last hours), given all earlier summaries and, from round 4 on, a list of mechanisms "
        "still thin: state kept on reused objects, non-default options, dtype / width truncation, thresholds in size, environment and "
        "logging level, swallowed exceptions ...). With the checks as they are now the quick check of its property catches %d of %d "
        "(`seeded/RESULTS-quick.json`: `tools/seed.py matrix quick`, run in parallel streams on frozen snapshots of /verif during the last hours - every property was re-run after the last change to its driver - and merged with `tools/merge_results.py`; the one not caught, C15-v1, needs an injected out-of-memory fault and is left uncovered by decision). Per round: %s. In total %d were NOT caught when they "
        "arrived - missed, crashed the driver, caught only by accident, or (11 of round 3) strengthened on the agent's description before "
        "being measured; from round 4 on every change was measured against a frozen snapshot of /verif first. Each is marked "
        "**first pass** with what was changed (`seeded/FIRSTPASS.json`); the recurring patterns are summarised below the table. The share "
        "missed on arrival did not fall from round to round (the later rounds were steered at what the earlier ones had not tried), which "
        "is the honest measure of how much of each property the checks covered before; what they cover now is the union. No check was "
        "loosened to catch a change, and clauses that demanded more than their property states were demoted to drift notes on the way "
        "(11.4, 11.7).\n\n"
        "| seeded change | breaks | needs | quick check of its property |\n|---|---|---|---|\n" % (n, caught, n, rounds, nf))
txt = open(V + "/DESIGN.md").read()
a, b = txt.index("<!-- SEEDED-TABLE-BEGIN -->"), txt.index("<!-- SEEDED-TABLE-END -->")
txt = txt[:a] + "<!-- SEEDED-TABLE-BEGIN -->\n" + head + "\n".join(rows) + "\n" + txt[b:]
open(V + "/DESIGN.md", "w").write(txt)
print(n, caught, nf)
