#!/venv/bin/python
"""Maintenance tool for seeded changes (not part of any registered check).

  seed.py verify  C07 m1     confirm in the scratch worktree /tmp/wt/C07: demo passes without, fails with, test-suite passes with
  seed.py install C07 m1     copy /tmp/wt/out_C07/m1.* to /verif/seeded/C07-m1/ (after verify)
  seed.py detect  C07-m1 [tier] [check-id]   apply to /repo, run ./check, undo; prints exit code
"""
import json, os, shutil, subprocess, sys, time

V = os.environ.get("VERIF_HOME", "/verif")          # a snapshot copy can be used so that edits in /verif do not disturb a long matrix run


def sh(cmd, cwd=None, env=None, timeout=3600):
    e = dict(os.environ)
    e.update(env or {})
    p = subprocess.run(cmd, shell=True, cwd=cwd, env=e, stdout=subprocess.PIPE, stderr=subprocess.STDOUT, text=True, timeout=timeout)
    return p.returncode, p.stdout


def _outdir(pid, m):
    if m in ("b2", "b3"):
        return "/tmp/wt/out8_%s" % pid
    return {"n": "/tmp/wt/out2_%s", "p": "/tmp/wt/out3_%s", "q": "/tmp/wt/out4_%s", "r": "/tmp/wt/out5_%s", "u": "/tmp/wt/out6_%s", "v": "/tmp/wt/out7_%s", "w": "/tmp/wt/out9_%s",
            "b": "/tmp/wt/out7_%s"}.get(m[0], "/tmp/wt/out_%s") % pid


def verify(pid, m):
    wt, out = "/tmp/wt/%s" % pid, _outdir(pid, m)
    env = {"PYTHONPATH": wt + "/src"}
    rc, o = sh("git status --porcelain", cwd=wt)
    assert o.strip() == "", "worktree dirty: " + o
    res = {}
    rc0, o0 = sh("/venv/bin/python %s/%s_demo.py" % (out, m), cwd=wt, env=env)
    res["demo_without"] = rc0
    rc, o = sh("git apply %s/%s.diff" % (out, m), cwd=wt)
    assert rc == 0, o
    try:
        rc1, o1 = sh("/venv/bin/python %s/%s_demo.py" % (out, m), cwd=wt, env=env)
        res["demo_with"] = rc1
        rct, ot = sh("/venv/bin/python -m pytest -q -p no:cacheprovider --timeout=900 2>&1 | tail -3", cwd=wt, env=env)
        res["tests_tail"] = ot.strip().splitlines()[-1] if ot.strip() else ""
        res["tests_pass"] = " passed" in res["tests_tail"] and "failed" not in res["tests_tail"] and "error" not in res["tests_tail"]
    finally:
        sh("git checkout -- . && git clean -fdq", cwd=wt)
    if m.startswith("b"):          # a property-PRESERVING change: its demo passes both ways
        res["ok"] = res["demo_without"] == 0 and res["demo_with"] == 0 and res["tests_pass"]
    else:
        res["ok"] = res["demo_without"] == 0 and res["demo_with"] != 0 and res["tests_pass"]
    print(json.dumps(res))
    return res


def install(pid, m, res=None):
    out = _outdir(pid, m)
    d = os.path.join(V, "benign" if m.startswith("b") else "seeded", "%s-%s" % (pid, m))
    os.makedirs(d, exist_ok=True)
    shutil.copy("%s/%s.diff" % (out, m), d + "/patch.diff")
    shutil.copy("%s/%s_demo.py" % (out, m), d + "/demo.py")
    if m in ("b2", "b3"):          # these demonstrations import helper modules written next to them
        import glob
        for f in glob.glob(out + "/*.py"):
            shutil.copy(f, d + "/" + os.path.basename(f))
    meta = json.load(open("%s/%s.json" % (out, m)))
    meta = {"property": pid, "summary": meta.get("summary"), "needs": meta.get("needs"), "clause": meta.get("clause"),
            "what_changes": meta.get("what_changes"), "why_property_still_holds": meta.get("why_property_still_holds"),
            "origin": "independent sub-agent given only the property text and a scratch worktree",
            "confirmed": res, "confirmed_by": "tools/seed.py verify (scratch worktree: demo rc without/with patch, pinned pytest suite with patch)"}
    json.dump(meta, open(d + "/meta.json", "w"), indent=1)
    print("installed", d)


def detect(sid, tier="quick", check=None):
    """one seeded change against its check, in a scratch clone of /repo (so /repo stays pristine for anything running meanwhile)"""
    d = os.path.join(V, "benign" if sid.split("-")[1].startswith("b") else "seeded", sid)
    pid = check or json.load(open(d + "/meta.json"))["property"]
    clone = "/tmp/verif-detect-%s-%d" % (sid, os.getpid())
    sh("rm -rf %s && git clone -q /repo %s" % (clone, clone))
    t0 = time.time()
    try:
        rc, o = sh("git -C %s apply %s/patch.diff" % (clone, d))
        assert rc == 0, o
        rc, o = sh("./check %s --tier %s" % (pid, tier), cwd=V, env={"VERIF_REPO": clone, "VERIF_EVIDENCE_DIR": clone + "/.verif-evidence"})
    finally:
        sh("rm -rf " + clone)
    lines = [l for l in o.splitlines() if l.startswith(("VIOLATION", "  what", "PASS", "FAIL", "MACHINERY", "KNOWN"))]
    print("%s on %s (%s): exit %d in %.0fs" % (sid, pid, tier, rc, time.time() - t0))
    print("\n".join(lines[:8]))
    return rc


def matrix(tier="quick", only=None, tag=""):
    """every seeded change against the check of its property, in a scratch clone of /repo (so /repo stays usable meanwhile);
    `only`: comma-separated property ids (several streams can run side by side), `tag`: suffix of the results file"""
    clone = "/tmp/verif-matrix-repo" + tag
    only = set(only.split(",")) if only else None
    sh("rm -rf %s && git clone -q /repo %s" % (clone, clone))
    res = {}
    try:
        for sid in sorted(os.listdir(os.path.join(V, "seeded"))):
            d = os.path.join(V, "seeded", sid)
            if not os.path.isdir(d) or not os.path.exists(d + "/patch.diff"):
                continue
            pid = json.load(open(d + "/meta.json"))["property"]
            if only and pid not in only:
                continue
            rc, o = sh("git -C %s apply %s/patch.diff" % (clone, d))
            if rc != 0:
                res[sid] = {"property": pid, "applies": False}
                continue
            t0 = time.time()
            rc, o = sh("./check %s --tier %s" % (pid, tier), cwd=V, env={"VERIF_REPO": clone, "VERIF_EVIDENCE_DIR": clone + "/.verif-evidence"})
            sh("git -C %s checkout -- ." % clone)
            first = [l.strip() for l in o.splitlines() if l.strip().startswith("what:")][:1]
            res[sid] = {"property": pid, "exit": rc, "detected": rc == 1, "wall_s": round(time.time() - t0), "first": (first[0][:260] if first else "")}
            print(sid, res[sid]["exit"], res[sid]["wall_s"], flush=True)
    finally:
        sh("rm -rf " + clone)
    json.dump(res, open(os.path.join(V, "seeded", "RESULTS-%s%s.json" % (tier, tag)), "w"), indent=1)
    print("detected %d of %d" % (sum(1 for r in res.values() if r.get("detected")), len(res)))


if __name__ == "__main__":
    a = sys.argv[1:]
    if a[0] == "verify":
        r = verify(a[1], a[2])
        if r["ok"] and len(a) > 3 and a[3] == "install":
            install(a[1], a[2], r)
    elif a[0] == "install":
        install(a[1], a[2])
    elif a[0] == "matrix":
        matrix(*a[1:])
    elif a[0] == "detect":
        sys.exit(0 if detect(*a[1:]) == 1 else 3)
