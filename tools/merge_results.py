#!/venv/bin/python
"""Merges the per-stream results of `seed.py matrix` (RESULTS-quick-<tag>.json, later tags win for the properties they were run for)
and detections logged by `seed.py detect` loops into seeded/RESULTS-quick.json."""
import json, os, re, sys
V = "/verif"
res = {}
for path, props in [a.split("=") for a in sys.argv[1:] if "=" in a and not a.startswith("log:")]:
    d = json.load(open(path))
    keep = set(props.split(",")) if props != "*" else None
    for sid, r in d.items():
        if keep is None or r.get("property") in keep:
            res[sid] = r
for a in sys.argv[1:]:
    if a.startswith("log:"):          # lines "<sid> on <pid> (quick): exit N in Ts" followed by VIOLATION / what lines
        txt = open(a[4:]).read().splitlines()
        for i, l in enumerate(txt):
            m = re.match(r"(\S+) on (\S+) \(quick\): exit (\d+) in (\d+)s", l)
            if m and m.group(1) not in res and os.path.isdir(os.path.join(V, "seeded", m.group(1))):
                what = next((x.strip() for x in txt[i + 1:i + 4] if x.strip().startswith("what:")), "")
                res[m.group(1)] = {"property": m.group(2), "exit": int(m.group(3)), "detected": m.group(3) == "1", "wall_s": int(m.group(4)), "first": what[:260]}
missing = [s for s in sorted(os.listdir(V + "/seeded")) if os.path.isdir(os.path.join(V, "seeded", s)) and s not in res]
json.dump(dict(sorted(res.items())), open(V + "/seeded/RESULTS-quick.json", "w"), indent=1)
print("merged %d results, detected %d, not run: %s" % (len(res), sum(1 for r in res.values() if r.get("detected")), missing))
