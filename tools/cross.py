#!/venv/bin/python
"""Cross-runs: property-preserving changes (benign/<ID>-bK) against the checks of OTHER properties anchored in the files they touch.
Usage: tools/cross.py plan            -> prints the (change, check) pairs
       tools/cross.py run I N TAG     -> runs every pair whose index % N == I, each in a scratch clone; writes benign/CROSS-<TAG>.json
A run that is not quiet is not by itself a false alarm: the change was only claimed to preserve ITS property (DESIGN 11.7)."""
import json, os, re, sys
sys.path.insert(0, os.path.dirname(os.path.abspath(__file__)))
import seed
V = seed.V
FILES = {
    "src/batchie/data.py": "C01 C02 C03 C12 C14 C11 C13",
    "src/batchie/retrospective.py": "C11 C13 C03 C12 C18",
    "src/batchie/core.py": "C04 C10 C17 C08 C09 C11",
    "src/batchie/models/sparse_combo.py": "C04 C08 C09 C10 C18 C17",
    "src/batchie/models/sparse_combo_interaction.py": "C04 C08 C09 C10 C18 C17",
    "src/batchie/scoring/gaussian_dbal.py": "C05 C15 C06",
    "src/batchie/scoring/main.py": "C06 C16 C05",
    "src/batchie/fast_mvn.py": "C08 C18 C04",
    "src/batchie/models/main.py": "C09 C20 C10 C04",
    "src/batchie/sampling.py": "C17 C18 C10 C08",
    "src/batchie/policies/k_per_sample.py": "C16 C06",
    "src/batchie/synergy.py": "C20 C09",
}
DONE = {("C03-b3", "C01"), ("C03-b3", "C02"), ("C03-b3", "C12")}


def plan(rounds=("b2", "b3")):
    out = []
    for sid in sorted(os.listdir(os.path.join(V, "benign"))):
        if sid.split("-")[-1] not in rounds:
            continue
        d = os.path.join(V, "benign", sid)
        own = json.load(open(d + "/meta.json"))["property"]
        checks = []
        for f in re.findall(r"^\+\+\+ b/(\S+)", open(d + "/patch.diff").read(), re.M):
            for c in FILES.get(f, "").split():
                if c != own and c not in checks and (sid, c) not in DONE:
                    checks.append(c)
        out += [(sid, c) for c in checks]
    return out


if __name__ == "__main__":
    if sys.argv[1] == "plan":
        p = plan()
        print(len(p), p)
    else:
        i, n, tag = int(sys.argv[2]), int(sys.argv[3]), sys.argv[4]
        res = {}
        for k, (sid, c) in enumerate(plan()):
            if k % n != i:
                continue
            rc = seed.detect(sid, "quick", c)
            res["%s x %s" % (sid, c)] = rc
            json.dump(res, open(os.path.join(V, "benign", "CROSS-%s.json" % tag), "w"), indent=1)
