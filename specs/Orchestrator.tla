----------------------------- MODULE Orchestrator -----------------------------
(* C19.  nextflow/scripts/batchie.py as a crash-prone state machine over an output directory tree,    *)
(* together with the pipeline run it launches.                                                         *)
(*                                                                                                     *)
(*   filesystem   idirs (iter_i), pdirs (iter_i/plate_j), files[step][kind] (published outputs)        *)
(*   script       pc and locals (next step, last metadata, current screen, excludes, command, ...)     *)
(*   pipeline     the command being run and the set of files it has published so far                   *)
(*   faults       Crash in every non-idle state (kills script and pipeline, loses the locals);         *)
(*                OperatorRemove(d) only of a directory the script named when it gave up               *)
(*   ghosts       completed steps, launched commands, died (script ended with an error naming nothing) *)
(*                                                                                                     *)
(* File contents are abstracted to [s, good, u]: the step whose run wrote the file, whether that run   *)
(* was launched with exactly the command an uninterrupted execution issues for that step (pipeline     *)
(* steps are deterministic functions of their inputs), and - for screens and metadata - the number of  *)
(* unobserved plates.  One action per filesystem mutation of the script (each unlink of rmtree, each   *)
(* mkdir of makedirs) and per published file of the pipeline, so Crash can fall between any two.        *)
EXTENDS Naturals, Integers, Sequences, FiniteSets, SequencesExt, TLC

CONSTANTS B,          \* --batch-size
          U0,         \* unobserved plates of the prepared training screen (retrospective) / of the input screen
          MaxIter,    \* prospective mode: iterations explored (each invocation of the script completes one batch)
          Mode,       \* "retrospective" | "prospective"
          MaxCrash,
          BugReset,   \* TRUE: the scan resets the plate index for an iteration directory without plate directories (pinned code)
          MetaOnly    \* TRUE: a job directory counts as complete as soon as screen_metadata.json exists (pinned code);
                      \* FALSE: it also needs its selected_plate file

Kinds == {"trainscr", "testscr", "thetas", "dist", "selected", "advanced", "meta"}
MaxI == IF Mode = "retrospective" THEN U0 ELSE MaxIter
Steps == (0..MaxI) \X (0..B - 1)
NoStep == <<99, 99>>
None == [s |-> NoStep, good |-> FALSE, u |-> 0]
Input == [s |-> <<-1, -1>>, good |-> TRUE, u |-> U0]     \* the screen given on the command line

VARIABLES idirs, pdirs, files,
          pc, ni, nj, lastMeta, curScreen, excl, torm, cmd, pub, named,
          crashes, completed, launched, died, runs
vars == <<idirs, pdirs, files, pc, ni, nj, lastMeta, curScreen, excl, torm, cmd, pub, named, crashes, completed, launched, died, runs>>

NoCmd == [wf |-> "none"]
Has(s, k) == s \in pdirs /\ files[s][k] # None

(* ------------- the reference: what an uninterrupted execution does at each step ------------- *)
Prev(s) == IF s[2] > 0 THEN <<s[1], s[2] - 1>> ELSE <<s[1] - 1, B - 1>>
StepNo(s) == s[1] * B + s[2]
Good(s, u) == [s |-> s, good |-> TRUE, u |-> u]
\* unobserved plates in the screen that step s of the reference execution outputs
URef(s) == IF Mode = "retrospective" THEN U0 - 1 - StepNo(s) ELSE U0
Ref(s) ==
    IF Mode = "retrospective" THEN
        IF s = <<0, 0>> THEN [wf |-> "initial", screen |-> Input]
        ELSE IF s[2] = 0 THEN [wf |-> "first", train |-> Good(Prev(s), URef(Prev(s))), test |-> Good(<<0, 0>>, U0)]
        ELSE [wf |-> "next", screen |-> Good(Prev(s), URef(Prev(s))), thetas |-> Good(<<s[1], 0>>, 0), dist |-> Good(<<s[1], 0>>, 0),
              excl |-> {Good(<<s[1], j>>, 0) : j \in 0..s[2] - 1}]
    ELSE
        IF s[2] = 0 THEN [wf |-> "pfirst", screen |-> Input]
        ELSE [wf |-> "next", screen |-> Input, thetas |-> Good(<<s[1], 0>>, 0), dist |-> Good(<<s[1], 0>>, 0),
              excl |-> {Good(<<s[1], j>>, 0) : j \in 0..s[2] - 1}]

(* ------------- the pipeline: which files a workflow publishes, and after which ------------- *)
Outputs(wf) == CASE wf = "initial" -> Kinds
                 [] wf = "first" -> Kinds \ {"trainscr", "testscr"}
                 [] wf = "next" -> {"selected", "advanced", "meta"}
                 [] wf = "pfirst" -> {"thetas", "dist", "selected", "meta"}
Needs(wf, k) ==
    CASE k = "trainscr" -> {}
      [] k = "testscr" -> {}
      [] k = "thetas" -> IF wf = "initial" THEN {"trainscr", "testscr"} ELSE {}
      [] k = "dist" -> {"thetas"}
      [] k = "selected" -> IF wf = "next" THEN {} ELSE {"dist"}
      [] k = "advanced" -> {"selected"}
      [] k = "meta" -> IF wf = "pfirst" THEN {} ELSE {"advanced"}   \* PROSPECTIVE feeds the metadata job from the input channel
InU(c) == CASE c.wf = "initial" -> U0 [] c.wf = "first" -> c.train.u [] c.wf = "next" -> c.screen.u [] c.wf = "pfirst" -> U0
Content(s, c, k) ==
    LET g == (c = Ref(s)) IN
    CASE k \in {"trainscr", "testscr"} -> [s |-> s, good |-> g, u |-> U0]
      [] k \in {"thetas", "dist", "selected"} -> [s |-> s, good |-> g, u |-> 0]
      [] k = "advanced" -> [s |-> s, good |-> g, u |-> InU(c) - 1]
      [] k = "meta" -> [s |-> s, good |-> g, u |-> IF c.wf = "pfirst" THEN U0 ELSE InU(c) - 1]

(* ------------- the scan: examine_output_dir_to_determine_current_iteration ------------- *)
Valid(s) == Has(s, "meta") /\ (MetaOnly \/ Has(s, "selected"))
PlatesOf(i) == {j \in 0..B + 1 : <<i, j>> \in pdirs}
AscSeq(S) == SetToSortSeq(S, <)
\* scan state: [err, dir, meta, it, pl, last]   (last = the loop variable plate_dir after the loops)
RECURSIVE ScanPlates(_, _, _, _)
ScanPlates(i, ps, idx, st) ==
    IF idx > Len(ps) \/ st.err THEN st
    ELSE LET j == ps[idx] IN
         IF ~Valid(<<i, j>>) THEN [st EXCEPT !.err = TRUE, !.dir = <<i, j>>]
         ELSE IF j # idx - 1 THEN [st EXCEPT !.err = TRUE, !.dir = <<i, j>>]
         ELSE ScanPlates(i, ps, idx + 1, [st EXCEPT !.pl = j, !.it = i, !.meta = files[<<i, j>>]["meta"].u, !.last = <<i, j>>, !.seen = TRUE])
RECURSIVE ScanIters(_, _, _)
ScanIters(is, x, st) ==
    IF x > Len(is) \/ st.err THEN st
    ELSE LET i == is[x]
             ps == AscSeq(PlatesOf(i))
             st1 == IF BugReset \/ ps # << >> THEN [st EXCEPT !.pl = 0] ELSE st
         IN ScanIters(is, x + 1, ScanPlates(i, ps, 1, st1))
ScanAll == ScanIters(AscSeq(idirs), 1, [err |-> FALSE, dir |-> NoStep, meta |-> -99, it |-> -1, pl |-> -1, last |-> NoStep, seen |-> FALSE])

ScreenOf(s) == IF s = NoStep THEN None
               ELSE IF Has(s, "advanced") THEN files[s]["advanced"]
               ELSE IF Has(s, "trainscr") THEN files[s]["trainscr"] ELSE None

(* ------------- initial state ------------- *)
NoFiles == [k \in Kinds |-> None]
Init == /\ idirs = {} /\ pdirs = {} /\ files = [s \in (0..MaxI + 1) \X (0..B + 1) |-> NoFiles]
        /\ pc = "idle" /\ ni = 0 /\ nj = 0 /\ lastMeta = -99 /\ curScreen = None /\ excl = {} /\ torm = {} /\ cmd = NoCmd /\ pub = {}
        /\ named = NoStep /\ crashes = 0 /\ completed = {} /\ launched = << >> /\ died = FALSE /\ runs = 0

ScriptVars == <<ni, nj, lastMeta, curScreen, excl, torm, cmd, pub>>
Ghosts == <<completed, launched, died>>
Finished == /\ pc = "idle" /\ ~died /\ named = NoStep /\ runs > 0
            /\ IF Mode = "retrospective" THEN \E s \in completed : URef(s) <= 0
               ELSE \A i \in 0..MaxIter - 1 : <<i, B - 1>> \in completed

(* ------------- the script ------------- *)
\* (a finished retrospective simulation may be started again: the script must then find nothing to do)
Start == /\ pc = "idle" /\ ~died /\ named = NoStep
         /\ (Finished => Mode = "retrospective" /\ runs <= MaxCrash + 1)
         /\ (Mode = "prospective" => runs < MaxIter + MaxCrash + 1)
         /\ pc' = "scan" /\ runs' = runs + 1
         /\ UNCHANGED <<idirs, pdirs, files, ScriptVars, named, crashes, Ghosts>>

Scan == /\ pc = "scan"
        /\ LET r == ScanAll IN
           IF r.err
           THEN /\ pc' = "idle" /\ named' = r.dir                       \* RuntimeError naming the directory to delete
                /\ UNCHANGED <<ni, nj, lastMeta, curScreen>>
           ELSE /\ named' = NoStep
                /\ IF ~r.seen
                   THEN ni' = 0 /\ nj' = 0 /\ lastMeta' = -99 /\ curScreen' = None
                   ELSE /\ lastMeta' = r.meta /\ curScreen' = ScreenOf(r.last)
                        /\ IF r.pl >= B - 1 THEN ni' = r.it + 1 /\ nj' = 0 ELSE ni' = r.it /\ nj' = r.pl + 1
                /\ pc' = "decide"
        /\ UNCHANGED <<idirs, pdirs, files, excl, torm, cmd, pub, crashes, Ghosts, runs>>

Decide == /\ pc = "decide"
          /\ IF Mode = "retrospective" /\ lastMeta # -99 /\ lastMeta <= 0
             THEN pc' = "idle" /\ UNCHANGED <<excl, torm>>                 \* 0 unobserved plates remaining, exiting
             ELSE /\ pc' = "rm"
                  /\ excl' = {files[<<ni, j>>]["selected"] : j \in {j \in 0..B + 1 : Has(<<ni, j>>, "selected")}}   \* get_selected_plates
                  /\ torm' = {k \in Kinds : Has(<<ni, nj>>, k)}
          /\ UNCHANGED <<idirs, pdirs, files, ni, nj, lastMeta, curScreen, cmd, pub, named, crashes, Ghosts, runs>>

\* shutil.rmtree(job dir): one unlink per step, in any order, then the directory itself
RmEntryK(k) == /\ pc = "rm" /\ k \in torm
               /\ files' = [files EXCEPT ![<<ni, nj>>][k] = None] /\ torm' = torm \ {k}
               /\ UNCHANGED <<idirs, pdirs, pc, ni, nj, lastMeta, curScreen, excl, cmd, pub, named, crashes, Ghosts, runs>>
RmEntry == \E k \in Kinds : RmEntryK(k)
RmDir == /\ pc = "rm" /\ torm = {}
         /\ pdirs' = pdirs \ {<<ni, nj>>}
         /\ pc' = "mkiter"
         /\ UNCHANGED <<idirs, files, ni, nj, lastMeta, curScreen, excl, torm, cmd, pub, named, crashes, Ghosts, runs>>
\* os.makedirs(job dir): mkdir iter_i, then mkdir iter_i/plate_j
MkIter == /\ pc = "mkiter" /\ idirs' = idirs \cup {ni} /\ pc' = "mkplate"
          /\ UNCHANGED <<pdirs, files, ScriptVars, named, crashes, Ghosts, runs>>
MkPlate == /\ pc = "mkplate" /\ pdirs' = pdirs \cup {<<ni, nj>>} /\ pc' = "launch"
           /\ UNCHANGED <<idirs, files, ScriptVars, named, crashes, Ghosts, runs>>

\* choice of workflow and inputs; the exceptions that name nothing end the script for good (died)
Command ==
    IF Mode = "retrospective" THEN
        IF <<ni, nj>> = <<0, 0>> THEN [wf |-> "initial", screen |-> Input]
        ELSE IF nj = 0 THEN [wf |-> "first", train |-> curScreen,
                             test |-> IF Has(<<0, 0>>, "trainscr") THEN files[<<0, 0>>]["trainscr"] ELSE None]
        ELSE [wf |-> "next", screen |-> curScreen, thetas |-> files[<<ni, 0>>]["thetas"], dist |-> files[<<ni, 0>>]["dist"], excl |-> excl]
    ELSE
        IF nj = 0 THEN [wf |-> "pfirst", screen |-> Input]
        ELSE [wf |-> "next", screen |-> Input, thetas |-> files[<<ni, 0>>]["thetas"], dist |-> files[<<ni, 0>>]["dist"], excl |-> excl]
\* the test screen of the reference is the *training* screen of iter_0/plate_0 (the script globs training.screen.h5): compare as is
Unusable(c) == \/ (c.wf = "first" /\ (c.test = None \/ c.train = None))
               \/ (c.wf = "next" /\ (~Has(<<ni, 0>>, "thetas") \/ ~Has(<<ni, 0>>, "dist") \/ c.screen = None))
Launch == /\ pc = "launch"
          /\ LET c == Command IN
             IF Unusable(c)
             THEN /\ died' = TRUE /\ pc' = "idle" /\ UNCHANGED <<cmd, pub, launched>>
             ELSE /\ cmd' = c /\ pub' = {} /\ pc' = "pipeline"
                  /\ launched' = Append(launched, [s |-> <<ni, nj>>, c |-> c])
                  /\ UNCHANGED died
          /\ UNCHANGED <<idirs, pdirs, files, ni, nj, lastMeta, curScreen, excl, torm, named, crashes, completed, runs>>

Publish(k) == /\ pc = "pipeline" /\ k \in Outputs(cmd.wf) \ pub /\ Needs(cmd.wf, k) \subseteq pub
              /\ files' = [files EXCEPT ![<<ni, nj>>][k] = Content(<<ni, nj>>, cmd, k)]
              /\ pub' = pub \cup {k}
              \* a step is complete the moment its last file is published (whether or not the script lives to see it)
              /\ completed' = IF pub \cup {k} = Outputs(cmd.wf) THEN completed \cup {<<ni, nj>>} ELSE completed
              /\ UNCHANGED <<idirs, pdirs, pc, ni, nj, lastMeta, curScreen, excl, torm, cmd, named, crashes, launched, died, runs>>
PublishAny == \E k \in Kinds : Publish(k)
PipelineDone == /\ pc = "pipeline" /\ pub = Outputs(cmd.wf)
                /\ pc' = IF Mode = "retrospective" \/ nj < B - 1 THEN "scan" ELSE "idle"
                /\ UNCHANGED <<idirs, pdirs, files, ScriptVars, named, crashes, Ghosts, runs>>

(* ------------- faults and the operator ------------- *)
Crash == /\ pc # "idle" /\ crashes < MaxCrash
         /\ pc' = "idle" /\ crashes' = crashes + 1
         /\ ni' = 0 /\ nj' = 0 /\ lastMeta' = -99 /\ curScreen' = None /\ excl' = {} /\ torm' = {} /\ cmd' = NoCmd /\ pub' = {}
         /\ UNCHANGED <<idirs, pdirs, files, named, Ghosts, runs>>
OperatorRemove == /\ pc = "idle" /\ named # NoStep
                  /\ pdirs' = pdirs \ {named} /\ files' = [files EXCEPT ![named] = NoFiles]
                  /\ named' = NoStep
                  /\ UNCHANGED <<idirs, pc, ScriptVars, crashes, Ghosts, runs>>

Next == Start \/ Scan \/ Decide \/ RmEntry \/ RmDir \/ MkIter \/ MkPlate \/ Launch \/ PublishAny \/ PipelineDone \/ Crash \/ OperatorRemove
Spec == Init /\ [][Next]_vars
FairSpec == Spec /\ WF_vars(Start \/ Scan \/ Decide \/ RmEntry \/ RmDir \/ MkIter \/ MkPlate \/ Launch \/ PublishAny \/ PipelineDone \/ OperatorRemove)

(* ------------- C19 ------------- *)
AllFiles(s) == \A k \in Outputs(Ref(s).wf) : Has(s, k)
\* no completed step is ever deleted (neither by the script nor on its instruction)
NoCompletedDeleted == \A s \in completed : AllFiles(s)
\* ... or executed twice
NoRelaunchOfCompleted == [][\A s \in completed : Len(launched') > Len(launched) => launched'[Len(launched')].s # s]_vars
\* no step index is skipped: everything before a launched step is complete
NoSkipStrict == [][Len(launched') > Len(launched) =>
                     \A s \in Steps : StepNo(s) < StepNo(launched'[Len(launched')].s) => s \in completed]_vars
\* every executed step receives exactly the inputs of the uninterrupted execution (hence records the same selection,
\* and starts from the output screen of its immediate predecessor)
SameAsCrashFree == \A a \in 1..Len(launched) : launched[a].c = Ref(launched[a].s)
\* the script never gives up with an error that names nothing to remove
NeverDies == ~died
\* the run can always be brought to its end by rerunning (checked as a liveness property without a state constraint)
EventuallyFinished == <>[]Finished
=============================================================================
