------------------------------ MODULE TraceViews ------------------------------
(* C14, conformance: real view objects; after every operation the selection vector, the content and   *)
(* the ids of EVERY object in the pool are logged and compared (so in-place damage to an operand is    *)
(* seen), and a materialised screen's rows are compared with the view's rows in order.                 *)
EXTENDS Views, TraceLib
VARIABLES tid, l
T == Traces[tid]
Ev == T.events[l]
SetOf(q) == {q[x] : x \in 1..Len(q)}
TInit == tid \in 1..Len(Traces) /\ l = 1 /\ Init

Act(e) ==
    CASE e.op = "subset" -> Subset(e.a, SetOf(e.inner))
      [] e.op = "combine" -> Combine(e.a, e.b)
      [] e.op = "concat" -> Concat3(e.l[1], e.l[2], e.l[3])
      [] e.op = "invert" -> Invert(e.a)
      [] e.op = "bymask" -> ByMask(e.p, e.obs)
      [] e.op = "plate" -> GetPlate(e.p, e.id)
      [] e.op = "unique" -> FilterUnique(e.a, SetOf(e.s))
      [] e.op = "to_screen" -> ToScreen(e.a, e.newids)
Enabled(e) ==
    CASE e.op = "unique" -> SetOf(e.s) \in UniqueChoices(pool[e.a])
      [] e.op = "plate" -> e.id \in {parents[e.p].pid[x] : x \in Rows(e.p)}
      [] OTHER -> TRUE
ObjOk(o, lg) == /\ lg.par = pool'[o].par /\ SetOf(lg.sel) = pool'[o].sel /\ lg.sel = Asc(pool'[o].sel)
                /\ lg.c = ContentIn(parents', pool'[o]) /\ lg.i = IdsIn(parents', pool'[o])
TStep == /\ l <= Len(T.events)
         /\ Check(tid, l, "result-is-a-view-the-spec-allows:" \o Ev.op, Enabled(Ev))
         /\ Act(Ev)
         /\ (Ev.op \in {"combine", "concat"} => Check(tid, l, "refusal-iff-different-parents", Ev.refused = hist'[Len(hist')].refused))
         /\ (Ev.op = "bymask" => Check(tid, l, "none-iff-empty", Ev.none = hist'[Len(hist')].none))
         /\ Check(tid, l, "number-of-objects", Len(Ev.pool) = Len(pool'))
         /\ \A o \in 1..Len(pool') : Check(tid, l, IF o <= Len(pool) THEN "existing-object-untouched-by-" \o Ev.op
                                                                     ELSE "new-object-of-" \o Ev.op, ObjOk(o, Ev.pool[o]))
         \* derived per-experiment attribute (single-agent effects): the PARENT's values at the selected rows, in parent order
         /\ \A o \in 1..Len(pool') : Check(tid, l, "view-reports-parent's-single-agent-effects-at-its-rows",
                  LET lg == Ev.pool[o] IN lg.e = [x \in 1..Len(lg.sel) |-> Ev.pste[lg.par][lg.sel[x]]])
         /\ (Ev.op = "to_screen" =>
                LET np == parents'[Len(parents')] IN
                Check(tid, l, "materialised-screen-has-the-view's-rows-in-order",
                      Ev.newc = np.c /\ Ev.newk = np.k /\ Ev.newmask = np.mask /\ Ev.newpid = np.pid))
         /\ l' = l + 1 /\ UNCHANGED tid
TDone == l = Len(T.events) + 1 /\ Accept(tid) /\ UNCHANGED <<vars, tid, l>>
TNext == TStep \/ TDone
=============================================================================
