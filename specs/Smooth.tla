-------------------------------- MODULE Smooth --------------------------------
(* C13 (and C11), design level + source of inputs.  Generative transcriptions of the plate smoothers    *)
(* and of the combination filter on ALL small plate-size profiles.                                       *)
(*                                                                                                       *)
(* A profile is a non-decreasing sequence of <<sample, size>> pairs: plate i belongs to sample s_i and   *)
(* holds n_i unobserved experiments.  The screen built from it uses the representation of Retro.tla, so  *)
(* the relational clauses of C13 written there (FixedSizeOk, OptimalSizeOk, MinMergeStopsExactly,        *)
(* TBHalves, MergeSameSample, ComboFilterOk) are evaluated on what the transcriptions produce:           *)
(*   - FixedSizeSmoother / OptimalSizeSmoother: drop smaller plates, keep k experiments of larger ones   *)
(*     (which ones is a random choice: \E over a window offset); the optimal size is the FIRST argmax    *)
(*     of size * (number of plates at least that large) over the ascending plate sizes (np.argmax).      *)
(*     BugOpt = TRUE scores the distinct sizes only (a realistic slip: np.unique for np.sort) and TLC     *)
(*     reports the profile 1,1,1,3 on which fewer experiments are retained than possible.                *)
(*   - MergeMinPlateSmoother: per sample, a min-heap; pop the two smallest (ties: any), stop when they    *)
(*     exceed the limit together, else push their union.                                                 *)
(*   - MergeTopBottomPlateSmoother: per sample and iteration, sort by size (ties: any order), merge the   *)
(*     i-th smallest into the i-th largest for i up to floor(n/2).                                        *)
(*   - the combination filter on rows of Arity treatment slots.                                          *)
(* Every input explored is exported and replayed through the real operations by harness/retro.py.        *)
EXTENDS Retro, FiniteSetsExt, Functions

CONSTANTS MaxPlates, MaxSize, SmOps, Arity, NTreat, BugOpt

Pairs == Samples \X (1..MaxSize)
Code(pr) == pr[1] * 100 + pr[2]
Profiles == UNION {{q \in [1..n -> Pairs] : \A a \in 1..n - 1 : Code(q[a]) <= Code(q[a + 1])} : n \in 1..MaxPlates}
RECURSIVE Offset(_, _)
Offset(q, i) == IF i = 1 THEN 0 ELSE Offset(q, i - 1) + q[i - 1][2]
Label(q, i) == q[i][1] * 10 + i
ScreenOfProfile(q) == FlattenSeq([i \in 1..Len(q) |-> [j \in 1..q[i][2] |-> Row(Offset(q, i) + j, q[i][1], Label(q, i))]])

Size(sc, p) == Cardinality(URows(sc, p))
\* position of row x inside its plate, 0-based
Rank(sc, x) == Cardinality({y \in URows(sc, sc[x].pl) : y < x})

(* ---- fixed / optimal size ---- *)
Truncate(sc, k, r) ==           \* plates smaller than k dropped, larger ones keep the k experiments in the window starting at offset r
    SelectSeq([x \in 1..Len(sc) |-> [sc[x] EXCEPT !.obs = ~(Size(sc, sc[x].pl) >= k /\ ((Rank(sc, x) + r) % Size(sc, sc[x].pl)) < k)]],
              LAMBDA row : ~row.obs)
AscSizes(sc) == SortSeq(SetToSeq(PlatesU(sc)), LAMBDA a, b : Size(sc, a) < Size(sc, b) \/ (Size(sc, a) = Size(sc, b) /\ a < b))
OptimalK(sc) ==
    LET ps == AscSizes(sc)
        q == IF BugOpt THEN SetToSortSeq({Size(sc, p) : p \in PlatesU(sc)}, <) ELSE [i \in 1..Len(ps) |-> Size(sc, ps[i])]
        n == Len(q)
        score(i) == q[i] * (n - i + 1)
        i0 == CHOOSE i \in 1..n : (\A j \in 1..n : score(j) <= score(i)) /\ (\A j \in 1..i - 1 : score(j) < score(i))
    IN q[i0]

(* ---- merges: a partition of the plates of one sample into groups ---- *)
GSize(sc, g) == FoldSet(LAMBDA p, acc : acc + Size(sc, p), 0, g)
RECURSIVE MM(_, _, _)
MM(sc, gs, min) ==
    IF Cardinality(gs) <= 1 THEN {gs}
    ELSE LET A == {g \in gs : \A h \in gs : GSize(sc, g) <= GSize(sc, h)} IN
         UNION {LET rest == gs \ {a}
                    B == {h \in rest : \A h2 \in rest : GSize(sc, h) <= GSize(sc, h2)} IN
                UNION {IF GSize(sc, a) + GSize(sc, b) > min THEN {gs} ELSE MM(sc, (gs \ {a, b}) \cup {a \cup b}, min) : b \in B} : a \in A}
SortedOrders(sc, gs) ==
    {q \in [1..Cardinality(gs) -> gs] : /\ \A a, b \in 1..Cardinality(gs) : a < b => q[a] # q[b] /\ GSize(sc, q[a]) <= GSize(sc, q[b])}
Paired(q) == LET n == Len(q)  h == n \div 2 IN
             {q[i] \cup q[n + 1 - i] : i \in 1..h} \cup (IF n % 2 = 1 THEN {q[h + 1]} ELSE {})
RECURSIVE TB(_, _, _)
TB(sc, gs, it) == IF it = 0 \/ Cardinality(gs) <= 1 THEN {gs}
                  ELSE UNION {TB(sc, Paired(q), it - 1) : q \in SortedOrders(sc, gs)}
\* all ways of choosing one outcome per sample
RECURSIVE Combine(_)
Combine(seqOfSets) == IF seqOfSets = << >> THEN {{}} ELSE {P \cup Q : P \in Head(seqOfSets), Q \in Combine(Tail(seqOfSets))}
Singletons(sc, s) == {{p} : p \in UPlatesOfSample(sc, s)}
MergeOutcomes(sc, perSample(_)) ==
    LET smp == SetToSortSeq(SamplesOf(sc, Unobs(sc)), <) IN Combine([i \in 1..Len(smp) |-> perSample(smp[i])])
Relabel(sc, part) == [x \in 1..Len(sc) |-> [sc[x] EXCEPT !.pl = Min(CHOOSE g \in part : sc[x].pl \in g)]]

(* ---- combination filter ---- *)
TRows == [1..Arity -> 0..NTreat]
TCode(t) == FoldFunction(LAMBDA v, acc : acc * 10 + v, 0, t)      \* (order of slots irrelevant for the symmetry reduction below)
CRow(i, t) == [id |-> i, s |-> 1, ts |-> t, pl |-> 1, obs |-> FALSE]

(* ---- plain enumeration of small screens for the operations specified relationally only (pairwise / permutation generators,  *)
(* sparse cover, hold-outs, segregating generator): no transcription, TLC is the source of every small input shape - which    *)
(* samples have single-agent rows, which plates are observed, duplicates, controls in either or both slots                    *)
TsChoices == {<<1, 2>>, <<2, 1>>, <<1, 0>>, <<0, 2>>, <<0, 0>>}
RowChoices == Samples \X TsChoices \X (1..2)
RCode(r) == r[1] * 1000 + r[2][1] * 100 + r[2][2] * 10 + r[3]
ScreenInputs == UNION {{[x \in 1..n |-> [id |-> x, s |-> q[x][1], ts |-> q[x][2], pl |-> q[x][3], obs |-> po[q[x][3]]]] :
                           q \in {qq \in [1..n -> RowChoices] : \A a \in 1..n - 1 : RCode(qq[a]) <= RCode(qq[a + 1])}, po \in [1..2 -> BOOLEAN]} :
                       n \in 1..NRows}

SmInit == /\ op \in SmOps /\ out = << >> /\ phase = 0
          /\ IF op = "inputs"
             THEN /\ param = 0
                  /\ \E n \in 1..NRows : \E q \in [1..n -> RowChoices], po \in [1..2 -> BOOLEAN] :
                        /\ \A a \in 1..n - 1 : RCode(q[a]) <= RCode(q[a + 1])
                        /\ in = [x \in 1..n |-> [id |-> x, s |-> q[x][1], ts |-> q[x][2], pl |-> q[x][3], obs |-> po[q[x][3]]]]
             ELSE
             IF op = "combofilter"
             THEN /\ param = 0
                  /\ \E n \in 1..NRows : \E q \in [1..n -> TRows] :
                        /\ \A a \in 1..n - 1 : TCode(q[a]) <= TCode(q[a + 1])
                        /\ in = [x \in 1..n |-> CRow(x, q[x])]
             ELSE /\ param \in (IF op = "optimal" THEN {0} ELSE 1..MaxParam)
                  /\ \E q \in Profiles : in = ScreenOfProfile(q)

Fixed == /\ phase = 0 /\ op = "fixed" /\ \E r \in 0..MaxSize - 1 : out' = Truncate(in, param, r)
         /\ phase' = 1 /\ UNCHANGED <<in, op, param>>
Optimal == /\ phase = 0 /\ op = "optimal" /\ \E r \in 0..MaxSize - 1 : out' = Truncate(in, OptimalK(in), r)
           /\ phase' = 1 /\ UNCHANGED <<in, op, param>>
MergeMin == /\ phase = 0 /\ op = "mergemin"
            /\ \E part \in MergeOutcomes(in, LAMBDA s : MM(in, Singletons(in, s), param)) : out' = Relabel(in, part)
            /\ phase' = 1 /\ UNCHANGED <<in, op, param>>
MergeTB == /\ phase = 0 /\ op = "mergetb"
           /\ \E part \in MergeOutcomes(in, LAMBDA s : TB(in, Singletons(in, s), param)) : out' = Relabel(in, part)
           /\ phase' = 1 /\ UNCHANGED <<in, op, param>>
ComboFilter == /\ phase = 0 /\ op = "combofilter"
               /\ LET full == {x \in 1..Len(in) : \A a \in 1..Arity : in[x].ts[a] # 0}
                      sel == UNION {{in[x].ts[a] : a \in 1..Arity} : x \in full} \cup {0}
                  IN out' = SelectSeq(in, LAMBDA row : \A a \in 1..Arity : row.ts[a] \in sel)
               /\ phase' = 1 /\ UNCHANGED <<in, op, param>>
Pass == phase = 0 /\ op = "inputs" /\ out' = in /\ phase' = 1 /\ UNCHANGED <<in, op, param>>
SmNext == Fixed \/ Optimal \/ MergeMin \/ MergeTB \/ ComboFilter \/ Pass

Done(o) == phase = 1 /\ op = o
FixedShape == Done("fixed") => SmoothKeepsSub(in, out) /\ FixedSizeOk(in, param, out)
OptimalShape == Done("optimal") => SmoothKeepsSub(in, out) /\ OptimalSizeOk(in, out)
MergeMinShape == Done("mergemin") => GenKeepsAll(in, out) /\ MergeSameSample(in, out) /\ MinMergeStopsExactly(in, out, param)
MergeTBShape == Done("mergetb") => GenKeepsAll(in, out) /\ MergeSameSample(in, out) /\ TBHalves(in, out, param)
ComboFilterShape == Done("combofilter") => ComboFilterOk(in, out)
\* a smoothed screen can be smoothed again: what the ensemble smoother relies on
FixedIdempotent == Done("fixed") => \A r \in 0..MaxSize - 1 : Truncate(out, param, r) = out
\* the enumerated screens are legal inputs: a plate is wholly observed or wholly unobserved, identities are distinct
InputsWellFormed == op = "inputs" => /\ \A x, y \in 1..Len(in) : in[x].pl = in[y].pl => in[x].obs = in[y].obs
                                     /\ NoDuplicates(in)
SmExport == (Export /\ phase = 0) => PrintT(ToJson([tag |-> "smooth-in", op |-> op, param |-> param, rows |-> in]))
=============================================================================
