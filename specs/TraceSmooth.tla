------------------------------ MODULE TraceSmooth ------------------------------
(* Conformance of the generative transcriptions in Smooth.tla (not a verdict on C13: the clauses of C13  *)
(* are judged by TraceRetro).  One trace = one call of a real smoother on a screen built from a plate-    *)
(* size profile; accepted when the real result is one of the outcomes the transcription can produce:      *)
(*   optimal  - the common size is exactly the FIRST argmax the transcription computes                    *)
(*   fixed    - the kept plates are those with at least k experiments, k of each                          *)
(*   mergemin / mergetb - the partition of the input plates into merged plates is one the heap / the      *)
(*              sorted pairing can produce (ties broken either way)                                       *)
(* A rejection is reported as model drift: the exhaustive TLC result on Smooth.tla then no longer         *)
(* speaks about this code, and the transcription has to be updated.                                       *)
EXTENDS Smooth, TraceLib
VARIABLE tid
T == Traces[tid]
TInit == tid \in 1..Len(Traces) /\ in = << >> /\ op = "fixed" /\ param = 1 /\ out = << >> /\ phase = 0
TNext == UNCHANGED <<vars, tid>>

\* partition of the input plates induced by the output plate labels
PartOf(i0, o0) == {{ById(i0, o0[y].id).pl : y \in {y \in 1..Len(o0) : o0[y].pl = p}} : p \in {o0[y].pl : y \in 1..Len(o0)}}
KeptSizes(i0, o0) == [p \in {ById(i0, o0[y].id).pl : y \in 1..Len(o0)} |-> Cardinality({y \in 1..Len(o0) : ById(i0, o0[y].id).pl = p})]
SizesAfter(i0, k) == [p \in {q \in PlatesU(i0) : Size(i0, q) >= k} |-> k]
Ok ==
    /\ (T.op = "fixed" => Check(tid, 1, "fixed-keeps-k-of-every-plate-of-at-least-k", KeptSizes(T.inp, T.out) = SizesAfter(T.inp, T.p1)))
    /\ (T.op = "optimal" => Check(tid, 1, "optimal-size-is-the-first-argmax", KeptSizes(T.inp, T.out) = SizesAfter(T.inp, OptimalK(T.inp))))
    /\ (T.op = "mergemin" => Check(tid, 1, "min-merge-partition-reachable-by-the-heap",
                                   PartOf(T.inp, T.out) \in MergeOutcomes(T.inp, LAMBDA s : MM(T.inp, Singletons(T.inp, s), T.p1))))
    /\ (T.op = "mergetb" => Check(tid, 1, "top-bottom-partition-reachable-by-sorted-pairing",
                                  PartOf(T.inp, T.out) \in MergeOutcomes(T.inp, LAMBDA s : TB(T.inp, Singletons(T.inp, s), T.p1))))
    /\ (T.op = "combofilter" => Check(tid, 1, "filter-keeps-what-the-transcription-keeps",
                                      LET full == {x \in 1..Len(T.inp) : \A a \in 1..Len(T.inp[x].ts) : T.inp[x].ts[a] # 0}
                                          sel == UNION {{T.inp[x].ts[a] : a \in 1..Len(T.inp[x].ts)} : x \in full} \cup {0}
                                      IN Ids(T.out) = {T.inp[x].id : x \in {x \in 1..Len(T.inp) : \A a \in 1..Len(T.inp[x].ts) : T.inp[x].ts[a] \in sel}}))
Decide == Verdict(tid, Ok)
=============================================================================
