-------------------------------- MODULE Metrics --------------------------------
(* C20.  Evaluation metrics and Bliss synergy as terms built from the discrete structure only.            *)
(*  "eval":   E experiments, T posterior samples with chain labels lab[1..T]:                              *)
(*            mse, variance of the per-experiment mse, variance of the per-chain mse, mean predictions     *)
(*  "effect": id arrays (sample, treatment ids with -1 = control) with observations obs[r]:               *)
(*            single-agent effect map, effect array, synergy (lenient: skip; strict: refuse)               *)
(* Cases come from the small exhaustive scope or from $CASES_FILE.                                         *)
EXTENDS Terms, SequencesExt, TLC, Json, IOUtils

CONSTANTS MaxE, MaxT, Chains, MaxRows, Arities, NS, NT, Export, UseCases, Model
Cases == IF UseCases THEN JsonDeserialize(IOEnv.CASES_FILE) ELSE << >>
VARIABLES E, lab, rows, phase
vars == <<E, lab, rows, phase>>

Row(ar) == [s : 0..NS - 1, t : [1..ar -> -1..NT - 1]]
Init == /\ phase = 0
        /\ IF UseCases THEN \E c \in 1..Len(Cases) : E = Cases[c].E /\ lab = Cases[c].lab /\ rows = Cases[c].rows
           ELSE IF Model = "eval"
                THEN /\ E \in 1..MaxE /\ lab \in UNION {[1..t -> Chains] : t \in 1..MaxT} /\ rows = << >>
                ELSE /\ E = 0 /\ lab = << >>
                     /\ rows \in UNION {[1..n -> Row(ar)] : n \in 1..MaxRows, ar \in Arities}
Next == phase = 0 /\ phase' = 1 /\ UNCHANGED <<E, lab, rows>>

(* ---- eval ---- *)
T == Len(lab)
Err(e, t) == Sq(Sub(Ref("P", <<e - 1, t - 1>>), Ref("O", <<e - 1>>)))
Mse == Mean([k \in 1..E * T |-> Err(((k - 1) \div T) + 1, ((k - 1) % T) + 1)])
MseVar == Var([e \in 1..E |-> Mean([t \in 1..T |-> Err(e, t)])])
ChainSet == {lab[t] : t \in 1..T}
ColsOf(c) == SetToSortSeq({t \in 1..T : lab[t] = c}, <)
ChainMse(c) == LET cs == ColsOf(c) IN Mean([k \in 1..E * Len(cs) |-> Err(((k - 1) \div Len(cs)) + 1, cs[((k - 1) % Len(cs)) + 1])])
InterChain == LET cq == SetToSortSeq(ChainSet, <) IN Var([x \in 1..Len(cq) |-> ChainMse(cq[x])])
MeanPred == [e \in 1..E |-> Mean([t \in 1..T |-> Ref("P", <<e - 1, t - 1>>)])]
\* every (experiment, sample) pair enters the overall mse exactly once; the chains partition the columns
EachPairOnce == (phase = 1 /\ rows = << >> /\ E > 0) =>
    /\ Len(Mse.xs) = E * T
    /\ {Refs(Mse.xs[k]) : k \in 1..E * T} = {{<<"P", <<e, t>>>>, <<"O", <<e>>>>} : e \in 0..E - 1, t \in 0..T - 1}
    /\ UNION {{ColsOf(c)[x] : x \in 1..Len(ColsOf(c))} : c \in ChainSet} = 1..T

(* ---- effect / synergy ---- *)
Ar == Len(rows[1].t)
NCtl(r) == Cardinality({a \in 1..Ar : rows[r].t[a] = -1})
IsSingle(r) == NCtl(r) = Ar - 1
Active(r) == rows[r].t[CHOOSE a \in 1..Ar : rows[r].t[a] # -1]
SingleRows(sm, tr) == SetToSortSeq({r \in 1..Len(rows) : IsSingle(r) /\ rows[r].s = sm /\ Active(r) = tr}, <)
SamplesPresent == {rows[r].s : r \in 1..Len(rows)}
TreatsPresent == UNION {{rows[r].t[a] : a \in 1..Ar} : r \in 1..Len(rows)}
Defined(sm, tr) == sm \in SamplesPresent /\ tr \in TreatsPresent /\ (tr = -1 \/ SingleRows(sm, tr) # << >>)
Effect(sm, tr) == IF tr = -1 THEN Num(1) ELSE Mean([x \in 1..Len(SingleRows(sm, tr)) |-> Ref("obs", <<SingleRows(sm, tr)[x] - 1>>)])
EffectMap == {[s |-> sm, t |-> tr, v |-> Effect(sm, tr)] : <<sm, tr>> \in {p \in SamplesPresent \X TreatsPresent : Defined(p[1], p[2])}}
\* effect array: defined only if every cell's (sample, treatment) is in the map
ArrayDefined == \A r \in 1..Len(rows), a \in 1..Ar : Defined(rows[r].s, rows[r].t[a])
EffectArray == [r \in 1..Len(rows) |-> [a \in 1..Ar |-> Effect(rows[r].s, rows[r].t[a])]]
MultiRows == SetToSortSeq({r \in 1..Len(rows) : ~IsSingle(r)}, <)
NonCtl(r) == SelectSeq(rows[r].t, LAMBDA x : x # -1)
HasAll(r) == \A a \in 1..Len(NonCtl(r)) : Defined(rows[r].s, NonCtl(r)[a])
StrictRefuses == \E x \in 1..Len(MultiRows) : ~HasAll(MultiRows[x])
Kept == SelectSeq(MultiRows, HasAll)
Synergy == [x \in 1..Len(Kept) |->
              [row |-> Kept[x] - 1, s |-> rows[Kept[x]].s, t |-> NonCtl(Kept[x]),
               v |-> Sub(Mul([a \in 1..Len(NonCtl(Kept[x])) |-> Effect(rows[Kept[x]].s, NonCtl(Kept[x])[a])]), Ref("obs", <<Kept[x] - 1>>))]]
\* the map's domain is exactly the measured pairs plus control (where a control cell exists)
MapDomain == (phase = 1 /\ rows # << >>) =>
    \A sm \in SamplesPresent, tr \in TreatsPresent :
        (\E m \in EffectMap : m.s = sm /\ m.t = tr) <=> (tr = -1 \/ \E r \in 1..Len(rows) : IsSingle(r) /\ rows[r].s = sm /\ Active(r) = tr)
SynergyOwnRow == (phase = 1 /\ rows # << >>) => \A x \in 1..Len(Synergy) : <<"obs", <<Synergy[x].row>>>> \in Refs(Synergy[x].v)

ExportCase == (Export /\ phase = 1) =>
    IF rows = << >>
    THEN PrintT(ToJson([tag |-> "eval", E |-> E, lab |-> lab, mse |-> Mse, msevar |-> MseVar, interchain |-> InterChain, meanpred |-> MeanPred]))
    ELSE PrintT(ToJson([tag |-> "effect", rows |-> rows, map |-> EffectMap, array_defined |-> ArrayDefined,
                        array |-> IF ArrayDefined THEN EffectArray ELSE << >>, strict_refuses |-> StrictRefuses, synergy |-> Synergy]))
=============================================================================
