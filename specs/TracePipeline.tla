----------------------------- MODULE TracePipeline -----------------------------
(* End-to-end conformance: the real script driving the real command-line programs.  One event per       *)
(* completed (iteration, plate) step with the projection of its input screen, the posterior-sample         *)
(* digest it used, the excludes it was given, the plate it selected, the screen it produced and its         *)
(* metadata counter; the id mappings of every screen of the run must be the prepared ones.                  *)
EXTENDS Pipeline, TraceLib
VARIABLES tid, l, modelTok, seenToks
T == Traces[tid]
Ev == T.events[l]
SetOf(q) == {q[x] : x \in 1..Len(q)}
TInit == /\ tid \in 1..Len(Traces) /\ l = 1 /\ modelTok = 0 /\ seenToks = {}
         /\ obs = SetOf(Traces[tid].init_observed) /\ unobs = SetOf(Traces[tid].plates) \ SetOf(Traces[tid].init_observed)
         /\ it = 0 /\ pl = 0 /\ batch = << >> /\ model = 0 /\ nmodels = 0 /\ revealed = << >>
TStep == /\ l <= Len(T.events)
         /\ Check(tid, l, "step-index", Ev.s = <<it, pl>>)
         /\ Check(tid, l, "input-screen-is-the-predecessor's-output", SetOf(Ev.input.observed) = obs /\ SetOf(Ev.input.unobserved) = unobs)
         /\ Check(tid, l, "excludes-are-the-batch-so-far", SetOf(Ev.excl) = InBatch)
         /\ Check(tid, l, "selected-plate-unobserved-and-not-in-batch", Ev.selected \in unobs /\ Ev.selected \notin InBatch)
         /\ Check(tid, l, "one-model-per-iteration", IF pl = 0 THEN Ev.thetas \notin seenToks ELSE Ev.thetas = modelTok)
         /\ Check(tid, l, "id-mappings-constant-through-the-run", Ev.input.maps = T.maps /\ Ev.output.maps = T.maps)
         /\ Step(Ev.selected)
         /\ Check(tid, l, "exactly-the-selected-plate-revealed", SetOf(Ev.output.observed) = obs' /\ SetOf(Ev.output.unobserved) = unobs')
         /\ Check(tid, l, "metadata-counter", Ev.meta = Cardinality(unobs'))
         /\ modelTok' = Ev.thetas /\ seenToks' = seenToks \cup {Ev.thetas}
         /\ l' = l + 1 /\ UNCHANGED tid
TDone == /\ l = Len(T.events) + 1
         /\ Check(tid, l, "run-ends-when-nothing-is-left", unobs = {})
         /\ Accept(tid) /\ UNCHANGED <<vars, tid, l, modelTok, seenToks>>
TNext == TStep \/ TDone
TInv == obs \cap unobs = {} /\ obs \cup unobs = SetOf(T.plates) /\ NoDoubleReveal /\ StepArithmetic
=============================================================================
