--------------------------------- MODULE GridUnpack ---------------------------------
(* How the grid model reads a screen (batchie/models/grid_helper.py, unpack_data): every experiment becomes (sample id, drug 1, drug 2,
   log-concentration 1, log-concentration 2) with -1 for "no drug", and a lone drug is moved to the first position.  Not behind one of
   the listed properties (those are anchored in the sparse models); specified because it is a pure function with a case analysis
   (control name, zero dose, negative dose, which slot) that the grid model's look-ups rely on.

   Unpack is a transcription of what the code does; the operators below it say what the model relies on, and TLC checks them for every
   row of the (finite) case space.  Export prints every case with the transcription's answer; the harness builds real screens out of
   these rows and compares unpack_data row by row (spec -> code).                                                                      *)
EXTENDS Integers, Sequences, TLC, Json

CONSTANT Export
Control == 0
Names == {Control, 1, 2}                          \* 1, 2: drugs, in the order of the model's drug table (index = name - 1)
Doses == {"neg", "nzero", "zero", "lo", "hi"}     \* -0.5, -0.0, 0.0, 0.1, 10.0
Rows == [n1 : Names, d1 : Doses, n2 : Names, d2 : Doses]

\* log10 of a dose as numpy computes it (warnings suppressed): tokens
Log(d) == CASE d = "neg" -> "nan" [] d \in {"zero", "nzero"} -> "ninf" [] d = "lo" -> "m1" [] d = "hi" -> "p1"
Idx(n) == IF n = Control THEN -1 ELSE n - 1

Unpack(r) ==
    LET a1 == IF Log(r.d1) \in {"ninf", "nan"} THEN -1 ELSE Idx(r.n1)
        a2 == IF Log(r.d2) \in {"ninf", "nan"} THEN -1 ELSE Idx(r.n2)
        swap == a1 < 0
    IN [id1 |-> IF swap THEN a2 ELSE a1,
        id2 |-> IF swap THEN -1 ELSE a2,
        lc1 |-> IF swap THEN Log(r.d2) ELSE Log(r.d1),
        lc2 |-> Log(r.d2)]                          \* (the second log-concentration is left as it was, also after a swap)

VARIABLES row, phase
vars == <<row, phase>>
Init == row \in Rows /\ phase = 0
Done == phase = 0 /\ phase' = 1 /\ UNCHANGED row
Next == Done
Spec == Init /\ [][Next]_vars

------------------------------------------------------------------------------------------------------------------------
Active(n, d) == n # Control /\ d \in {"lo", "hi"}          \* a drug is present: a real name and a positive dose
U == Unpack(row)
A1 == Active(row.n1, row.d1)
A2 == Active(row.n2, row.d2)

NoDrugIsMinusOne == (~A1 /\ ~A2) => (U.id1 = -1 /\ U.id2 = -1)
LoneDrugComesFirst == /\ (A1 /\ ~A2) => (U.id1 = Idx(row.n1) /\ U.lc1 = Log(row.d1) /\ U.id2 = -1)
                      /\ (~A1 /\ A2) => (U.id1 = Idx(row.n2) /\ U.lc1 = Log(row.d2) /\ U.id2 = -1)
PairKeepsItsOrder == (A1 /\ A2) => (U.id1 = Idx(row.n1) /\ U.id2 = Idx(row.n2) /\ U.lc1 = Log(row.d1) /\ U.lc2 = Log(row.d2))
\* a present drug always comes with a finite log-concentration (the grid look-up is fed only those)
PresentDrugHasFiniteConc == /\ (U.id1 >= 0 => U.lc1 \in {"m1", "p1"})
                            /\ (U.id2 >= 0 => U.lc2 \in {"m1", "p1"})
\* the second position is filled only when the first is
SecondOnlyWithFirst == U.id2 >= 0 => U.id1 >= 0
\* nothing is invented: the drugs that come out are the active drugs that went in
SameDrugs == {x \in {U.id1, U.id2} : x >= 0} = {Idx(row.n1) : z \in {k \in {1} : A1}} \cup {Idx(row.n2) : z \in {k \in {1} : A2}}

Exp == (Export /\ phase = 0) => PrintT(ToJson([tag |-> "unpack", row |-> row, out |-> Unpack(row)]))
=============================================================================
