----------------------------- MODULE TraceUnrank -----------------------------
(* C15, code -> spec.  Each trace is one observation of the real code:                              *)
(*   kind "point": get_combination_at_sorted_index(idx, n, k) = out, and = nxt at idx + 1           *)
(*   kind "dbal":  the (index, triple) pairs one DBAL scoring call drew for n posterior samples     *)
(* The specification recomputes rank / successor with overflow-free arithmetic (n up to 2,343 for   *)
(* k = 3, where C(n,3) < 2^31) and decides.                                                         *)
EXTENDS Naturals, Integers, Sequences, FiniteSets, TLC, Json, TraceLib

VARIABLE tid

C2(a) == IF a % 2 = 0 THEN (a \div 2) * (a - 1) ELSE a * ((a - 1) \div 2)
C3(a) == IF a < 3 THEN 0
         ELSE IF (a - 2) % 3 = 0 THEN C2(a) * ((a - 2) \div 3) ELSE (C2(a) \div 3) * (a - 2)
C4(a) == IF a < 4 THEN 0
         ELSE IF (a - 3) % 4 = 0 THEN C3(a) * ((a - 3) \div 4)
         ELSE IF (a - 3) % 2 = 0 THEN (C3(a) \div 2) * ((a - 3) \div 2)
         ELSE (C3(a) \div 4) * (a - 3)
Cc(a, b) == CASE b = 0 -> 1 [] b = 1 -> a [] b = 2 -> C2(a) [] b = 3 -> C3(a) [] b = 4 -> C4(a)

Descending(s) == \A a \in 1..Len(s) - 1 : s[a] > s[a + 1]
InRange(s, m) == \A a \in 1..Len(s) : s[a] \in 0..m - 1

\* Rank(s) = x, evaluated by successive subtraction so that nothing overflows 32 bits
RECURSIVE RankIs(_, _)
RankIs(s, x) == IF s = << >> THEN x = 0
                ELSE LET c == Cc(Head(s), Len(s)) IN c <= x /\ RankIs(Tail(s), x - c)

\* successor of a strictly descending tuple in ascending (colexicographic) order of such tuples:
\* increment the right-most position that can be incremented, reset every position after it to
\* its minimum (position p of k holds at least k - p)
SuccOf(s) ==
    LET k == Len(s)
        \* j = the right-most position that can be incremented
        Can(j) == IF j = 1 THEN TRUE ELSE s[j] + 1 < s[j - 1]
        J == CHOOSE j \in 1..k : Can(j) /\ \A q \in j + 1..k : ~Can(q)
    IN [p \in 1..k |-> IF p < J THEN s[p] ELSE IF p = J THEN s[p] + 1 ELSE k - p]

\* ---- beyond 32 bits: naturals as two limbs <<hi, lo>> in base 2^16 (n up to 6000: C(n,3) < 3.6 * 10^10) ----
LB == 65536
\* x * q for x < 2^25, q < 2^13, as limbs
MulLimbs(x, q) == LET xh == x \div LB  xl == x % LB  low == xl * q IN << xh * q + (low \div LB), low % LB >>
AddLimbs(u, v) == LET low == u[2] + v[2] IN << u[1] + v[1] + (low \div LB), low % LB >>
C3Limbs(a) == IF a < 3 THEN << 0, 0 >>
              ELSE IF (a - 2) % 3 = 0 THEN MulLimbs(C2(a), (a - 2) \div 3) ELSE MulLimbs(C2(a) \div 3, a - 2)
RankLimbs3(s) == AddLimbs(AddLimbs(C3Limbs(s[1]), << C2(s[2]) \div LB, C2(s[2]) % LB >>), << 0, s[3] >>)
BigPointOk(e) ==
    /\ Check(tid, 1, "length", Len(e.out) = 3)
    /\ Check(tid, 1, "descending", Descending(e.out))
    /\ Check(tid, 1, "in-range", InRange(e.out, e.n))
    /\ Check(tid, 1, "rank-equals-index (two-limb arithmetic)", RankLimbs3(e.out) = << e.idx_hi, e.idx_lo >>)
    /\ (e.has_next => Check(tid, 1, "successor", e.nxt = SuccOf(e.out)))

PointOk(e) ==
    /\ Check(tid, 1, "length", Len(e.out) = e.k)
    /\ Check(tid, 1, "descending", Descending(e.out))
    /\ Check(tid, 1, "in-range", InRange(e.out, e.n))
    /\ Check(tid, 1, "rank-equals-index", RankIs(e.out, e.idx))
    /\ (e.has_next => Check(tid, 1, "successor", e.k = 0 \/ e.nxt = SuccOf(e.out)))

DbalOk(e) ==
    LET P == e.picks
        total == C3(e.n)
        want == IF total < e.budget THEN total ELSE e.budget
    \* (how many triples are drawn below the budget is not part of C15; when the budget covers them, all of them exactly once)
    IN /\ Check(tid, 1, "count-when-budget-covers", total <= e.budget => Len(P) = total)
       /\ Check(tid, 1, "index-in-range", \A p \in 1..Len(P) : P[p].ind \in 0..total - 1)
       /\ Check(tid, 1, "indices-distinct", Cardinality({P[p].ind : p \in 1..Len(P)}) = Len(P))
       /\ Check(tid, 1, "triple-shape", \A p \in 1..Len(P) :
                    Len(P[p].t) = 3 /\ Descending(P[p].t) /\ InRange(P[p].t, e.n))
       /\ Check(tid, 1, "triple-is-unranking-of-index", \A p \in 1..Len(P) : RankIs(P[p].t, P[p].ind))
       /\ Check(tid, 1, "triples-distinct", Cardinality({P[p].t : p \in 1..Len(P)}) = Len(P))
       \* whatever the call un-ranked on the way (it need not un-rank anything): each (index, tuple) pair is the bijection's
       /\ Check(tid, 1, "unranked-pairs-follow-the-bijection", \A u \in 1..Len(e.unranked) :
                    Len(e.unranked[u].t) = 3 /\ Descending(e.unranked[u].t) /\ InRange(e.unranked[u].t, e.n) /\ RankIs(e.unranked[u].t, e.unranked[u].ind))
       /\ Check(tid, 1, "all-triples-when-budget-covers",
                total <= e.budget => Cardinality({P[p].t : p \in 1..Len(P)}) = total)

Ok(e) == IF e.kind = "point" THEN PointOk(e) ELSE IF e.kind = "bigpoint" THEN BigPointOk(e) ELSE DbalOk(e)

Init == tid \in 1..Len(Traces)
Next == UNCHANGED tid
Decide == Verdict(tid, Ok(Traces[tid]))
=============================================================================
