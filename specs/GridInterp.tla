--------------------------------- MODULE GridInterp ---------------------------------
(* interp_01_vals of the grid model (batchie/models/grid_helper.py): a value x in [0, 1] is placed between two neighbouring points of
   the regular grid 0, 1/M, ..., 1 (M = n_grid - 1) with a weight.  Companion of GridLookup.tla (irregular grids); same conventions:
   x = J / S on a lattice that float32 represents exactly (S = 16), the weight is an exact rational <<num, S>>.                      *)
EXTENDS Integers, TLC, Json

CONSTANTS S, MaxM, Export
Interp(J, M) == LET k == (J * M + S - 1) \div S                 \* ceil(x * M)
                IN [upper |-> k, lower |-> IF k = 0 THEN 0 ELSE k - 1, num |-> J * M - S * (k - 1)]       \* weight num / S on `upper`
VARIABLES J, M, phase
vars == <<J, M, phase>>
Init == J \in 0..S /\ M \in 1..MaxM /\ phase = 0
Next == phase = 0 /\ phase' = 1 /\ UNCHANGED <<J, M>>
Spec == Init /\ [][Next]_vars
I == Interp(J, M)
\* the two neighbours are grid points, adjacent (or the same at x = 0), and they bracket x
Neighbours == /\ I.upper \in 0..M /\ I.lower \in 0..M
              /\ (J > 0 => I.lower = I.upper - 1) /\ (J = 0 => I.upper = 0 /\ I.lower = 0)
              /\ I.lower * S <= J * M /\ J * M <= I.upper * S
\* the weight is a proportion in (0, 1] and reproduces x exactly:  x = w * upper/M + (1 - w) * lower/M   (times M * S * S)
WeightReproduces == /\ 0 < I.num /\ I.num <= S
                    /\ (J > 0 => I.num * I.upper * S + (S - I.num) * I.lower * S = J * M * S)
\* a value on a grid point gets weight one on that point
OnAGridPoint == \A k \in 0..M : J * M = k * S => (I.upper = k /\ I.num = S)
Exp == (Export /\ phase = 0) => PrintT(ToJson([tag |-> "interp", J |-> J, M |-> M, out |-> I]))
=============================================================================
