-------------------------------- MODULE Views --------------------------------
(* C14.  Subset / plate views over parent screens as a pool of objects.                               *)
(* A parent is [c, k, mask, pid]: per row a content token (names, doses, observation, mask, plate     *)
(* name - distinct per row), a condition-class token (sample id + ordered treatment ids; equal for     *)
(* duplicate conditions), the mask and the plate id.  A view is [par, sel]: its parent and the set of  *)
(* selected row positions.  Every operation creates a NEW object and must leave every existing object  *)
(* of the pool untouched (NoAliasing).  The fixture ($FIXTURE_FILE) gives the first parent; parent 2   *)
(* is a second Screen object with the same content (views of different parents must not combine).     *)
EXTENDS Naturals, Integers, Sequences, FiniteSets, SequencesExt, TLC, Json, IOUtils

CONSTANTS MaxObjs, Export

Fix == JsonDeserialize(IOEnv.FIXTURE_FILE)
N == Len(Fix.c)

VARIABLES parents,   \* Seq of parent screens
          pool,      \* Seq of views (objects are never removed or changed)
          hist
vars == <<parents, pool, hist>>
View == <<parents, pool>>

P0 == [c |-> Fix.c, k |-> Fix.k, mask |-> Fix.mask, pid |-> Fix.pid, ids |-> Fix.ids]
Rows(p) == 1..Len(parents[p].c)
Full(p) == [par |-> p, sel |-> Rows(p)]

Init == /\ parents = << P0, P0 >>
        /\ pool = << [par |-> 1, sel |-> 1..N], [par |-> 2, sel |-> 1..N] >>
        /\ hist = << >>

Asc(S) == SetToSortSeq(S, <)
\* what a view reports: the parent's values at the selected rows, in parent order
ContentIn(ps, v) == [x \in 1..Cardinality(v.sel) |-> ps[v.par].c[Asc(v.sel)[x]]]
IdsIn(ps, v) == [x \in 1..Cardinality(v.sel) |-> ps[v.par].ids[Asc(v.sel)[x]]]
Content(v) == ContentIn(parents, v)
Ids(v) == IdsIn(parents, v)
Add(v, e) == pool' = Append(pool, v) /\ hist' = Append(hist, e) /\ UNCHANGED parents
Refuse(e) == UNCHANGED <<parents, pool>> /\ hist' = Append(hist, e)

\* subset of a view by a boolean vector over the view's own rows (inner = set of 1-based indexes into the view)
Subset(a, inner) ==
    /\ a \in 1..Len(pool) /\ inner \in SUBSET (1..Cardinality(pool[a].sel))
    /\ Add([par |-> pool[a].par, sel |-> {Asc(pool[a].sel)[x] : x \in inner}], [op |-> "subset", a |-> a, inner |-> Asc(inner)])
Combine(a, b) ==
    /\ a \in 1..Len(pool) /\ b \in 1..Len(pool)
    /\ IF pool[a].par # pool[b].par THEN Refuse([op |-> "combine", a |-> a, b |-> b, refused |-> TRUE])
       ELSE Add([par |-> pool[a].par, sel |-> pool[a].sel \cup pool[b].sel], [op |-> "combine", a |-> a, b |-> b, refused |-> FALSE])
Concat3(a, b, c) ==
    /\ {a, b, c} \subseteq 1..Len(pool)
    /\ IF Cardinality({pool[a].par, pool[b].par, pool[c].par}) # 1 THEN Refuse([op |-> "concat", l |-> <<a, b, c>>, refused |-> TRUE])
       ELSE Add([par |-> pool[a].par, sel |-> pool[a].sel \cup pool[b].sel \cup pool[c].sel], [op |-> "concat", l |-> <<a, b, c>>, refused |-> FALSE])
Invert(a) ==
    /\ a \in 1..Len(pool)
    /\ Add([par |-> pool[a].par, sel |-> Rows(pool[a].par) \ pool[a].sel], [op |-> "invert", a |-> a])
\* Screen.subset_observed / subset_unobserved: None when the view would be empty
ByMask(p, obs) ==
    /\ p \in 1..Len(parents)
    /\ LET s == {x \in Rows(p) : parents[p].mask[x] = obs} IN
       IF s = {} THEN Refuse([op |-> "bymask", p |-> p, obs |-> obs, none |-> TRUE])
       ELSE Add([par |-> p, sel |-> s], [op |-> "bymask", p |-> p, obs |-> obs, none |-> FALSE])
GetPlate(p, id) ==
    /\ p \in 1..Len(parents) /\ id \in {parents[p].pid[x] : x \in Rows(p)}
    /\ Add([par |-> p, sel |-> {x \in Rows(p) : parents[p].pid[x] = id}], [op |-> "plate", p |-> p, id |-> id])
\* filter_dataset_to_unique_treatments: exactly one experiment of every distinct condition class among the view's rows
UniqueChoices(v) == {s \in SUBSET v.sel :
                        /\ \A x \in v.sel : \E y \in s : parents[v.par].k[y] = parents[v.par].k[x]
                        /\ \A x, y \in s : parents[v.par].k[x] = parents[v.par].k[y] => x = y}
FilterUnique(a, s) ==
    /\ a \in 1..Len(pool) /\ s \in UniqueChoices(pool[a])
    /\ Add([par |-> pool[a].par, sel |-> s], [op |-> "unique", a |-> a, s |-> Asc(s)])
\* ScreenSubset.to_screen: a new parent with the same rows in the same order; its full view joins the pool
\* (the ids of a materialised screen are its own business: `newids` is whatever the new screen reports)
ToScreen(a, newids) ==
    /\ a \in 1..Len(pool) /\ pool[a].sel # {} /\ Len(parents) < 4 /\ Len(newids) = Cardinality(pool[a].sel)
    /\ LET v == pool[a]  idx == Asc(v.sel)  q == parents[v.par] IN
       /\ parents' = Append(parents, [c |-> [x \in 1..Len(idx) |-> q.c[idx[x]]], k |-> [x \in 1..Len(idx) |-> q.k[idx[x]]],
                                      mask |-> [x \in 1..Len(idx) |-> q.mask[idx[x]]], pid |-> [x \in 1..Len(idx) |-> q.pid[idx[x]]],
                                      ids |-> newids])
       /\ pool' = Append(pool, [par |-> Len(parents) + 1, sel |-> 1..Len(idx)])
    /\ hist' = Append(hist, [op |-> "to_screen", a |-> a])

SubsetAny == \E a \in 1..Len(pool) : \E inner \in SUBSET (1..N) : Subset(a, inner)
CombineAny == \E a, b \in 1..Len(pool) : Combine(a, b)
ConcatAny == \E a, b, c \in 1..Len(pool) : a <= b /\ b <= c /\ Concat3(a, b, c)
InvertAny == \E a \in 1..Len(pool) : Invert(a)
ByMaskAny == \E p \in 1..Len(parents), o \in BOOLEAN : ByMask(p, o)
GetPlateAny == \E p \in 1..Len(parents), id \in 0..N : GetPlate(p, id)
FilterUniqueAny == \E a \in 1..Len(pool) : \E s \in SUBSET (1..N) : FilterUnique(a, s)
ToScreenAny == \E a \in 1..Len(pool) : ToScreen(a, Ids(pool[a]))
Next == SubsetAny \/ CombineAny \/ ConcatAny \/ InvertAny \/ ByMaskAny \/ GetPlateAny \/ FilterUniqueAny \/ ToScreenAny
Spec == Init /\ [][Next]_vars
Bound == Len(pool) <= MaxObjs /\ Len(hist) <= MaxObjs
NoIdleRuns == (Len(hist') >= 2 /\ View' = View) => (hist'[Len(hist') - 1] # hist'[Len(hist')])

(* ---- C14 ---- *)
NoAliasing == [][SubSeq(pool', 1, Len(pool)) = pool /\ SubSeq(parents', 1, Len(parents)) = parents]_vars
WithinParent == \A a \in 1..Len(pool) : pool[a].sel \subseteq Rows(pool[a].par)
ObservedSplit == \A p \in 1..Len(parents) :
    LET o == {x \in Rows(p) : parents[p].mask[x]}  u == {x \in Rows(p) : ~parents[p].mask[x]} IN o \cup u = Rows(p) /\ o \cap u = {}
MaterialisedSameRows == \A p \in 3..Len(parents) : \A x \in Rows(p) : \E q \in 1..2 : \E y \in Rows(q) : parents[q].c[y] = parents[p].c[x]

ExportPath == Export => PrintT(ToJson([tag |-> "path", hist |-> hist]))
=============================================================================
