-------------------------------- MODULE Retro --------------------------------
(* C11 / C13.  Retrospective preparation on a bag of experiments.                                     *)
(* An experiment is a record [id, s, ts, pl, obs]: a unique identity (the harness recovers it from     *)
(* sample, treatments, doses and the - distinct - observation value, so "same experiment" means same   *)
(* sample, conditions and value), its sample token, its treatment tokens (0 = control), its plate      *)
(* label token and whether it is observed.  A screen is a sequence of experiments.                     *)
(*                                                                                                     *)
(* Part 1 - the clauses of C11 / C13 as relations Rel(in, params, out) between an input screen and the  *)
(* screen an operation returned; TraceRetro evaluates them on outputs of the real operations.            *)
(* Part 2 - generative transcriptions of two operations (sample-segregating generator, per-sample       *)
(* minimum smoother) whose every random choice is an \E, explored by TLC on all small screens.  With     *)
(* BugSeg / BugNPL = TRUE they transcribe the pinned code and TLC finds the counterexamples F2 / F8.     *)
EXTENDS Naturals, Integers, Sequences, FiniteSets, SequencesExt, TLC, Json

CONSTANTS NRows, Samples, MaxParam, BugSeg, BugNPL, Export

Ids(sc) == {sc[x].id : x \in 1..Len(sc)}
Unobs(sc) == {x \in 1..Len(sc) : ~sc[x].obs}
PlatesU(sc) == {sc[x].pl : x \in Unobs(sc)}                       \* labels of unobserved plates
PlateRows(sc, p) == {x \in 1..Len(sc) : sc[x].pl = p}
URows(sc, p) == {x \in Unobs(sc) : sc[x].pl = p}
SamplesOf(sc, X) == {sc[x].s : x \in X}
ById(sc, i) == sc[CHOOSE x \in 1..Len(sc) : sc[x].id = i]
CeilDiv(a, b) == (a + b - 1) \div b

(* ---------------- Part 1: C11 ---------------- *)
NoDuplicates(out) == Cardinality(Ids(out)) = Len(out)
SameExperiment(in, out) == \A y \in 1..Len(out) : out[y].id \in Ids(in) /\ out[y].s = ById(in, out[y].id).s /\ out[y].ts = ById(in, out[y].id).ts
GenKeepsAll(in, out) == NoDuplicates(out) /\ Ids(out) = Ids(in) /\ SameExperiment(in, out)
SmoothKeepsSub(in, out) == NoDuplicates(out) /\ Ids(out) \subseteq Ids(in) /\ SameExperiment(in, out)
ObservedPassThrough(in, out) ==
    /\ {in[x].id : x \in 1..Len(in) \ Unobs(in)} = {out[y].id : y \in 1..Len(out) \ Unobs(out)}        \* same observed experiments, still observed
    /\ \A y \in 1..Len(out) : out[y].obs => out[y].pl = ById(in, out[y].id).pl                          \* in their plates
    /\ \A y \in 1..Len(out) : ~out[y].obs => ~ById(in, out[y].id).obs                                   \* nothing observed gets hidden
\* hold-out split with fraction fn/fd
HoldoutOk(in, fn, fd, train, test) ==
    /\ NoDuplicates(train) /\ NoDuplicates(test) /\ Ids(train) \cap Ids(test) = {} /\ Ids(train) \cup Ids(test) = Ids(in)
    /\ SameExperiment(in, train) /\ SameExperiment(in, test)
    /\ \A y \in 1..Len(train) : train[y].pl = ById(in, train[y].id).pl /\ train[y].obs = ById(in, train[y].id).obs
    /\ \A y \in 1..Len(test) : test[y].pl = ById(in, test[y].id).pl /\ test[y].obs
    /\ \A p \in {in[x].pl : x \in 1..Len(in)} :
          Cardinality({y \in 1..Len(test) : test[y].pl = p}) =
             IF \A x \in PlateRows(in, p) : in[x].obs THEN 0 ELSE CeilDiv(Cardinality(PlateRows(in, p)) * fn, fd)

(* ---------------- Part 1: C13 ---------------- *)
OneSamplePerUPlate(out) == \A p \in PlatesU(out) : Cardinality(SamplesOf(out, URows(out, p))) = 1
AtMostMax(out, max) == \A p \in PlatesU(out) : Cardinality(URows(out, p)) <= max
\* sparse cover: at least one observed experiment of every sample and of every treatment token; the rest in ONE unobserved plate
CoverOk(in, out) ==
    /\ \A s \in SamplesOf(in, 1..Len(in)) : \E y \in 1..Len(out) : out[y].obs /\ out[y].s = s
    /\ \A x \in 1..Len(in) : \A a \in 1..Len(in[x].ts) : \E y \in 1..Len(out) : out[y].obs /\ \E b \in 1..Len(out[y].ts) : out[y].ts[b] = in[x].ts[a]
    /\ Cardinality(PlatesU(out)) <= 1
    /\ Cardinality({out[y].pl : y \in 1..Len(out) \ Unobs(out)}) <= 1
CoverSingles(out) == \A y \in 1..Len(out) : (\E a \in 1..Len(out[y].ts) : out[y].ts[a] = 0) => out[y].obs
\* combination filter: keep exactly the experiments all of whose treatments occur in some full combination (control always allowed)
InFullCombo(in) == UNION {{in[x].ts[a] : a \in 1..Len(in[x].ts)} : x \in {x \in 1..Len(in) : \A a \in 1..Len(in[x].ts) : in[x].ts[a] # 0}}
ComboFilterOk(in, out) ==
    /\ NoDuplicates(out) /\ SameExperiment(in, out)
    /\ Ids(out) = {in[x].id : x \in {x \in 1..Len(in) : \A a \in 1..Len(in[x].ts) : in[x].ts[a] = 0 \/ in[x].ts[a] \in InFullCombo(in)}}
Sizes(sc) == [p \in PlatesU(sc) |-> Cardinality(URows(sc, p))]
CommonSize(out) == \A p, q \in PlatesU(out) : Cardinality(URows(out, p)) = Cardinality(URows(out, q))
FixedSizeOk(in, k, out) == /\ CommonSize(out) /\ \A p \in PlatesU(out) : Cardinality(URows(out, p)) = k
                           /\ Cardinality(PlatesU(out)) = Cardinality({p \in PlatesU(in) : Cardinality(URows(in, p)) >= k})
Retained(in, k) == k * Cardinality({p \in PlatesU(in) : Cardinality(URows(in, p)) >= k})
OptimalSizeOk(in, out) ==
    /\ CommonSize(out)
    /\ PlatesU(in) # {} =>
         LET k == IF PlatesU(out) = {} THEN 0 ELSE Cardinality(URows(out, CHOOSE p \in PlatesU(out) : TRUE)) IN
         /\ k > 0
         /\ \A j \in 1..Len(in) : Retained(in, j) <= Retained(in, k)
         /\ Cardinality(PlatesU(out)) * k = Retained(in, k)
UPlatesOfSample(sc, s) == {p \in PlatesU(sc) : s \in SamplesOf(sc, URows(sc, p))}
NoStarvedSample(out, m) == \A s \in SamplesOf(out, Unobs(out)) : Cardinality(UPlatesOfSample(out, s)) >= m
\* ... and nothing but starved samples is removed: a sample with at least m unobserved plates keeps all its experiments
KeepsQualifying(in, out, m) ==
    \A x \in Unobs(in) : Cardinality(UPlatesOfSample(in, in[x].s)) >= m => in[x].id \in Ids(out)
\* merge smoothers: every output plate is a union of whole input plates of one sample
MergeSameSample(in, out) ==
    /\ Ids(out) = Ids(in)
    /\ \A y, z \in Unobs(out) : ById(in, out[y].id).pl = ById(in, out[z].id).pl => out[y].pl = out[z].pl     \* input plates are never split
    /\ OneSamplePerUPlate(in) => OneSamplePerUPlate(out)
    \* whatever the input looked like: a plate made of two or more input plates holds one sample
    /\ \A p \in PlatesU(out) : Cardinality({ById(in, out[y].id).pl : y \in URows(out, p)}) >= 2 => Cardinality(SamplesOf(out, URows(out, p))) = 1
TwoSmallestSum(sc, s) ==
    LET ps == UPlatesOfSample(sc, s)
        sz(p) == Cardinality(URows(sc, p))
        a == CHOOSE p \in ps : \A q \in ps : sz(p) <= sz(q)
        b == CHOOSE p \in ps \ {a} : \A q \in ps \ {a} : sz(p) <= sz(q)
    IN sz(a) + sz(b)
MinMergeStopsExactly(in, out, min) ==
    /\ \A s \in SamplesOf(out, Unobs(out)) : Cardinality(UPlatesOfSample(out, s)) >= 2 => TwoSmallestSum(out, s) > min
    \* and it never merges once the two smallest exceed the limit: a sample whose two smallest input plates already exceed it is untouched
    /\ \A s \in SamplesOf(in, Unobs(in)) : (Cardinality(UPlatesOfSample(in, s)) >= 2 /\ TwoSmallestSum(in, s) > min) =>
           Cardinality(UPlatesOfSample(out, s)) = Cardinality(UPlatesOfSample(in, s))
RECURSIVE Halve(_, _)
Halve(n, it) == IF it = 0 \/ n <= 1 THEN n ELSE Halve(n - (n \div 2), it - 1)
TBHalves(in, out, it) == \A s \in SamplesOf(in, Unobs(in)) : Cardinality(UPlatesOfSample(out, s)) = Halve(Cardinality(UPlatesOfSample(in, s)), it)

(* ---------------- Part 2: generative transcriptions explored by TLC ---------------- *)
VARIABLES in, op, param, out, phase
vars == <<in, op, param, out, phase>>

Row(i, s, p) == [id |-> i, s |-> s, ts |-> <<1, 2>>, pl |-> p, obs |-> FALSE]
Init == /\ op \in {"seg", "npl"} /\ param \in 1..MaxParam /\ out = << >> /\ phase = 0
        /\ IF op = "seg"
           THEN \E ss \in [1..NRows -> Samples] : in = [x \in 1..NRows |-> Row(x, ss[x], 1)]
           \* the per-sample minimum smoother needs single-sample plates: plate p of sample s gets the label s * 10 + p
           ELSE \E ss \in [1..NRows - 1 -> Samples], ps \in [1..NRows - 1 -> 1..3] :
                    in = [x \in 1..NRows - 1 |-> Row(x, ss[x], ss[x] * 10 + ps[x])]

\* SampleSegregatingPermutationPlateGenerator: for every sample, ceil(count / max) plates filled by np.array_split of a permutation
SplitSizes(c, n) == [k \in 1..n |-> IF k <= c % n THEN c \div n + 1 ELSE c \div n]
SegOutcomes(sc, max) ==
    LET smp == SetToSortSeq(SamplesOf(sc, 1..Len(sc)), <)
        rowsOf(s) == {x \in 1..Len(sc) : sc[x].s = s}
        needs(s) == IF BugSeg /\ Cardinality(rowsOf(s)) <= max THEN 0 ELSE CeilDiv(Cardinality(rowsOf(s)), max)
    IN {lab \in [1..Len(sc) -> 0..Len(sc)] :           \* lab[x] = index of row x's plate among its sample's plates (0 = the unnamed plate "")
          \A si \in 1..Len(smp) :
             LET s == smp[si]  n == needs(s) IN
             IF n = 0 THEN \A x \in rowsOf(s) : lab[x] = 0
             ELSE /\ \A x \in rowsOf(s) : lab[x] \in 1..n
                  /\ \A k \in 1..n : Cardinality({x \in rowsOf(s) : lab[x] = k}) = SplitSizes(Cardinality(rowsOf(s)), n)[k]}
\* generated plate label: the unnamed plate is 0; plate k of sample s is s * 10 + k (labels of different samples never collide)
Seg == /\ phase = 0 /\ op = "seg"
       /\ \E lab \in SegOutcomes(in, param) :
             out' = [x \in 1..Len(in) |-> [in[x] EXCEPT !.pl = IF lab[x] = 0 THEN 0 ELSE in[x].s * 10 + lab[x]]]
       /\ phase' = 1 /\ UNCHANGED <<in, op, param>>

\* NPlatePerCellLineSmoother.  Pinned code: the sample ids to drop are remembered from the input screen, but each drop
\* re-materialises the screen and renumbers the remaining sample ids densely (BugNPL); repaired: all starved samples dropped at once.
Dense(sc) == LET smp == SetToSortSeq(SamplesOf(sc, 1..Len(sc)), <) IN
             [x \in 1..Len(sc) |-> [sc[x] EXCEPT !.s = CHOOSE k \in 1..Len(smp) : smp[k] = sc[x].s]]       \* ids 1..n by name order
RECURSIVE DropSeq(_, _)
DropSeq(sc, ids) == IF ids = << >> THEN sc
                    ELSE DropSeq(Dense(SelectSeq(sc, LAMBDA r : r.s # Head(ids))), Tail(ids))
NPL == /\ phase = 0 /\ op = "npl"
       /\ LET d == Dense(in)
              starved == SetToSortSeq({s \in SamplesOf(d, 1..Len(d)) : Cardinality(UPlatesOfSample(d, s)) < param}, <)
          IN out' = IF BugNPL THEN DropSeq(d, starved)
                    ELSE SelectSeq(d, LAMBDA r : r.s \notin {starved[k] : k \in 1..Len(starved)})
       /\ phase' = 1 /\ UNCHANGED <<in, op, param>>
Next == Seg \/ NPL

SegShape == (phase = 1 /\ op = "seg") => GenKeepsAll(in, out) /\ OneSamplePerUPlate(out) /\ AtMostMax(out, param)
\* (sample tokens of `out` are renumbered by the pinned transcription; compare through experiment identities)
NPLShape == (phase = 1 /\ op = "npl") =>
    LET d == Dense(in)
        keepIds == {d[x].id : x \in {x \in 1..Len(d) : Cardinality(UPlatesOfSample(d, d[x].s)) >= param}} IN
    Ids(out) = keepIds
ExportCase == (Export /\ phase = 0) => PrintT(ToJson([tag |-> "retro-in", rows |-> in]))
=============================================================================
