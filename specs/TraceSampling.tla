---------------------------- MODULE TraceSampling ----------------------------
(* C17, code -> spec.  "run": the event log of one real sampling.sample call on a counting model     *)
(* (reset, set_rng, step, get_state@count, vi_sample(num), end(holder)), replayed through the        *)
(* actions of Sampling.  "streams": tokens of the generator each (seed, n_chains, chain_index) got.   *)
EXTENDS Sampling, TraceLib, FiniteSets

VARIABLES tid, l
T == Traces[tid]
Ev == T.events[l]

TInit == /\ tid \in 1..Len(Traces) /\ l = 1
         /\ kind = Traces[tid].kind /\ b = Traces[tid].b /\ t = Traces[tid].t /\ n = Traces[tid].n
         /\ pc = "reset" /\ i = 0 /\ steps = 0 /\ recorded = << >> /\ nreset = 0 /\ nsetrng = 0 /\ asked = << >>

SilentPending == (pc = "burn" /\ i = b) \/ (pc = "loop" /\ i = n * t)
Is(e) == T.what = "run" /\ ~SilentPending /\ l <= Len(T.events) /\ Ev.ev = e
Adv == l' = l + 1 /\ UNCHANGED tid

TReset == Is("reset") /\ Check(tid, l, "reset-once-before-any-step", pc = "reset" /\ nreset = 0) /\ Reset /\ Adv
TSetRng == Is("set_rng") /\ Check(tid, l, "generator-handed-over-once-before-any-step", pc = "reset" /\ nsetrng = 0) /\ SetRng /\ Adv
\* a logged step is a burn-in step or a loop step; the loop exits BurnDone / LoopDone are silent steps of the trace
TStep == /\ Is("step")
         /\ Check(tid, l, "step-allowed-here", (pc = "burn" /\ i < b) \/ (pc = "loop" /\ i < n * t))
         /\ IF pc = "burn" THEN BurnStep ELSE Step
         /\ Adv
TSilent == /\ T.what = "run" /\ (BurnDone \/ LoopDone) /\ UNCHANGED <<tid, l>>
TRecord == /\ Is("get_state")
           /\ Check(tid, l, "state-recorded-exactly-after-every-t-th-step", pc = "record")
           /\ Check(tid, l, "recorded-step-count", Ev.count = steps)
           /\ Record /\ Adv
TVISample == /\ Is("vi_sample") /\ Check(tid, l, "vi-asked-here", pc = "visample")
             /\ Check(tid, l, "vi-asked-for-n", Ev.num = n)
             /\ VISample /\ Adv
TEnd == /\ Is("end")
        /\ Check(tid, l, "no-step-missing", pc = "done")
        /\ Check(tid, l, "holder-contents", kind = "vi" \/ Ev.holder = [x \in 1..n |-> b + x * t])
        /\ Check(tid, l, "holder-size", Len(Ev.holder) = n /\ Ev.complete)
        /\ Check(tid, l, "total-steps", kind = "vi" \/ Ev.total = b + n * t)
        /\ Check(tid, l, "one-reset-one-rng", nreset = 1 /\ nsetrng = 1)
        /\ Adv /\ UNCHANGED vars

StreamsOk ==
    LET S == T.streams IN
    /\ Check(tid, 1, "same-triple-same-stream",
             \A x, y \in 1..Len(S) : (S[x].seed = S[y].seed /\ S[x].nchains = S[y].nchains /\ S[x].idx = S[y].idx)
                                       => S[x].tok = S[y].tok)
    /\ Check(tid, 1, "other-chain-other-stream",
             \A x, y \in 1..Len(S) : (S[x].seed = S[y].seed /\ S[x].nchains = S[y].nchains /\ S[x].idx # S[y].idx)
                                       => S[x].tok # S[y].tok)
    /\ Check(tid, 1, "no-shared-window",
             \A x, y \in 1..Len(S) : (S[x].seed = S[y].seed /\ S[x].nchains = S[y].nchains /\ S[x].idx # S[y].idx)
                                       => {S[x].win[w] : w \in 1..Len(S[x].win)} \cap {S[y].win[w] : w \in 1..Len(S[y].win)} = {})
    \* streams of two chains that lie on one cycle of the generator fewer than 2^64 draws apart overlap in a long enough run
    \* (T.near: such pairs, found by the harness with the generator's distance function); spawned children lie on different cycles
    /\ Check(tid, 1, "no-two-chains-on-one-cycle-within-reach",
             \A p \in 1..Len(T.near) : LET x == T.near[p][1]  y == T.near[p][2] IN
                 ~(S[x].seed = S[y].seed /\ S[x].nchains = S[y].nchains /\ S[x].idx # S[y].idx))
TStreams == /\ T.what = "streams" /\ l = 1 /\ StreamsOk /\ l' = 2 /\ UNCHANGED <<vars, tid>>

TDone == /\ l = (IF T.what = "run" THEN Len(T.events) + 1 ELSE 2)
         /\ Accept(tid) /\ UNCHANGED <<vars, tid, l>>
TNext == TReset \/ TSetRng \/ TStep \/ TSilent \/ TRecord \/ TVISample \/ TEnd \/ TStreams \/ TDone
=============================================================================
