------------------------------- MODULE Predict -------------------------------
(* C09.  What a posterior sample predicts for ONE experiment, as a term over the sample's parameter      *)
(* arrays, derived from the documented model: it depends only on the experiment's sample and on the       *)
(* multiset of its non-control treatments.                                                                *)
(*   combination model:  Mu = alpha + W0[s] + sum_t V0[t] + sum_d W[s,d] * sum_t V1[t,d]                   *)
(*                            + (two non-control treatments: sum_d W[s,d] * V2[t1,d] * V2[t2,d])           *)
(*                       viability = clip(expit(Mu), 0.01, 0.99);  variance = 1 / precision                *)
(*   interaction model:  Mu = (two non-control treatments: sum_d W[s,d] * V2[t1,d] * V2[t2,d], else 0)     *)
(*                       viability = clip(exp(Mu + log(clip(E[s,t1] * E[s,t2], 0.01, 0.99))), 0.01, 0.99)  *)
(* Treatment id -1 is the control.  TLC enumerates every experiment shape of the small scope, checks the   *)
(* structural clauses on the terms and exports them.                                                       *)
EXTENDS Terms, TLC, Json

CONSTANTS NSamples, NTreat, MaxD, Export
VARIABLES kind, arity, s, t1, t2, D, phase
vars == <<kind, arity, s, t1, t2, D, phase>>

Init == /\ kind \in {"combo", "inter"} /\ arity \in 1..2 /\ s \in 0..NSamples - 1
        /\ t1 \in -1..NTreat - 1 /\ t2 \in -1..NTreat - 1 /\ D \in 1..MaxD /\ phase = 0
        /\ (arity = 1 => t2 = -1) /\ (kind = "inter" => arity = 2)
Next == phase = 0 /\ phase' = 1 /\ UNCHANGED <<kind, arity, s, t1, t2, D>>

\* the non-control treatments of the experiment, as a sorted sequence (a multiset: the same treatment may sit in both positions)
NC(a, b) == LET xs == IF a = -1 THEN (IF b = -1 THEN << >> ELSE << b >>) ELSE (IF b = -1 THEN << a >> ELSE (IF a <= b THEN << a, b >> ELSE << b, a >>)) IN xs
Dims(d) == [k \in 1..d |-> k - 1]

MuCombo(sm, nc, d) ==
    Add(<< Ref("alpha", << >>), Ref("W0", << sm >>) >>
        \o [k \in 1..Len(nc) |-> Ref("V0", << nc[k] >>)]
        \o [k \in 1..d |-> Mul(<< Ref("W", << sm, k - 1 >>), Add([j \in 1..Len(nc) |-> Ref("V1", << nc[j], k - 1 >>)]) >>)]
        \o (IF Len(nc) = 2 THEN [k \in 1..d |-> Mul(<< Ref("W", << sm, k - 1 >>), Ref("V2", << nc[1], k - 1 >>), Ref("V2", << nc[2], k - 1 >>) >>)] ELSE << >>))
MuInter(sm, nc, d) ==
    IF Len(nc) = 2 THEN Add([k \in 1..d |-> Mul(<< Ref("W", << sm, k - 1 >>), Ref("V2", << nc[1], k - 1 >>), Ref("V2", << nc[2], k - 1 >>) >>)])
    ELSE Num(0)
Mu(kd, sm, a, b, d) == IF kd = "combo" THEN MuCombo(sm, NC(a, b), d) ELSE MuInter(sm, NC(a, b), d)
Viability(kd, sm, a, b, d) ==
    IF kd = "combo" THEN Clip(Rat(1, 100), Rat(99, 100), Expit(Mu(kd, sm, a, b, d)))
    ELSE Clip(Rat(1, 100), Rat(99, 100),
              Exp(Add(<< Mu(kd, sm, a, b, d), Log(Clip(Rat(1, 100), Rat(99, 100), Mul(<< Ref("E", << sm, a >>), Ref("E", << sm, b >>) >>))) >>)))
Variance == Div(Num(1), Ref("precision", << >>))

(* ---- structural clauses ---- *)
\* only the experiment's own sample and non-control treatments are read
OwnCellsOnly == phase = 1 =>
    \A r \in Refs(Mu(kind, s, t1, t2, D)) :
        CASE r[1] \in {"W", "W0"} -> r[2][1] = s
          [] r[1] \in {"V0", "V1", "V2"} -> r[2][1] \in {t1, t2} \ {-1}
          [] OTHER -> r[1] = "alpha"
SwapSymmetric == phase = 1 => Mu(kind, s, t1, t2, D) = Mu(kind, s, t2, t1, D)
\* a pair with control predicts like the single agent (the arity-1 term of the same sample and treatment)
ControlNeutral == (phase = 1 /\ kind = "combo" /\ arity = 2 /\ t2 = -1) => Mu(kind, s, t1, t2, D) = MuCombo(s, NC(t1, -1), D)
ExportCase == (Export /\ phase = 1) =>
    PrintT(ToJson([tag |-> "pred", kind |-> kind, arity |-> arity, s |-> s, t1 |-> t1, t2 |-> t2, D |-> D,
                   mean |-> Mu(kind, s, t1, t2, D), viability |-> Viability(kind, s, t1, t2, D), variance |-> Variance]))
=============================================================================
