--------------------------- MODULE TraceDistChunks ---------------------------
(* C07, code -> spec.  Trace kinds:                                                                 *)
(*  "chunks"   : the chunks the real get_lower_triangular_indices_chunk returned for (n, k)          *)
(*  "assembly" : one real history: chunks computed with a recording metric, saved, loaded, combined  *)
(*               in a given order (events load(c) with the accumulator after it, then densify)       *)
(*  "metric"   : tokens of d(a,b), d(b,a), d(a,a) of the shipped metric                              *)
(* The assembly history is replayed through the actions Load / Densify of DistChunks.                *)
EXTENDS DistChunks, TraceLib

CONSTANT Strict   \* TRUE: the chunk boundaries, the order of entries in chunk files and in the combined matrix are those of DistChunks.tla
                  \*       (conformance of the transcription; reported as drift)
                  \* FALSE: what C07 states, on the chunks the real function returned (the verdict)
VARIABLES tid, l
tvars == <<vars, tid, l>>

T == Traces[tid]
Ev == T.events[l]
M(i, j) == T.metric[i + 1][j + 1]                 \* token of the value the metric returned for (theta_i, theta_j)
Map(v) == IF v = 0 THEN 0 ELSE M((v - 1) \div 100, (v - 1) % 100)

TInit == /\ tid \in 1..Len(Traces) /\ l = 1
         /\ n = Traces[tid].n /\ k = Traces[tid].k
         /\ acc = << >> /\ order = << >> /\ result = [kind |-> "none", m |-> << >>]

SetOfSeq(q) == {q[x] : x \in 1..Len(q)}
AllPairs == {<<i, j>> \in (0..n - 1) \X (0..n - 1) : i > j}
\* the clauses of C07 about the index chunks, on the chunks the real function returned
RelChunks(ch) ==
    /\ Check(tid, 1, "C07:one-chunk-per-index", Len(ch) = k)
    /\ Check(tid, 1, "C07:chunks-hold-pairs-i>j-in-range", \A c \in 1..Len(ch) : \A x \in 1..Len(ch[c]) : <<ch[c][x][1], ch[c][x][2]>> \in AllPairs)
    /\ Check(tid, 1, "C07:chunks-pairwise-disjoint-without-repeats",
             /\ \A c \in 1..Len(ch) : Cardinality(SetOfSeq(ch[c])) = Len(ch[c])
             /\ \A c, d \in 1..Len(ch) : c # d => SetOfSeq(ch[c]) \cap SetOfSeq(ch[d]) = {})
    /\ Check(tid, 1, "C07:chunks-cover-every-pair", UNION {{<<p[1], p[2]>> : p \in SetOfSeq(ch[c])} : c \in 1..Len(ch)} = AllPairs)
    /\ Check(tid, 1, "C07:chunk-sizes-differ-by-at-most-one", \A c, d \in 1..Len(ch) : Len(ch[c]) - Len(ch[d]) \in {-1, 0, 1})
ChunksOk ==
    /\ RelChunks(T.chunks)
    /\ (Strict => /\ Check(tid, 1, "chunks-equal-spec", \A c \in 0..k - 1 : T.chunks[c + 1] = Chunk(n, k, c))
                  /\ Check(tid, 1, "arith-properties", ArithOK))

MetricOk ==
    /\ Check(tid, 1, "metric-symmetric-bitwise", T.dab = T.dba)
    /\ Check(tid, 1, "metric-zero-on-identical", T.daa = 0)
    /\ Check(tid, 1, "metric-nonnegative", T.sign \in {"zero", "pos"})

OneShot == /\ T.kind \in {"chunks", "metric"} /\ l = 1 /\ l' = 2
           /\ IF T.kind = "chunks" THEN ChunksOk ELSE MetricOk
           /\ UNCHANGED vars /\ UNCHANGED tid

\* relational replay of an assembly history: acc collects the entries <<i, j, value token>> of the files combined so far
RLoad == /\ ~Strict /\ T.kind = "assembly" /\ l <= Len(T.events) /\ Ev.ev = "load"
         /\ (l = 1 => RelChunks(T.chunks))
         /\ Check(tid, l, "C07:chunk-file-holds-exactly-the-pairs-of-its-chunk",
                  /\ Len(Ev.file) = Len(T.chunks[Ev.c + 1])
                  /\ {<<Ev.file[x][1], Ev.file[x][2]>> : x \in 1..Len(Ev.file)} = {<<p[1], p[2]>> : p \in SetOfSeq(T.chunks[Ev.c + 1])})
         /\ Check(tid, l, "C07:entry-is-the-metric-of-the-two-samples'-predictions", \A x \in 1..Len(Ev.file) : Ev.file[x][3] = M(Ev.file[x][1], Ev.file[x][2]))
         /\ acc' = acc \o Ev.file
         /\ Check(tid, l, "C07:combined-matrix-holds-what-the-files-held",
                  {<<Ev.acc[x][1], Ev.acc[x][2], Ev.acc[x][3]>> : x \in 1..Len(Ev.acc)} = {<<acc'[x][1], acc'[x][2], acc'[x][3]>> : x \in 1..Len(acc')})
         /\ l' = l + 1 /\ UNCHANGED <<n, k, order, result, tid>>
RDensify == /\ ~Strict /\ T.kind = "assembly" /\ l <= Len(T.events) /\ Ev.ev = "densify"
            /\ LET have == {<<acc[x][1], acc[x][2]>> : x \in 1..Len(acc)} IN
               /\ Check(tid, l, "C07:refuses-iff-some-pair-is-missing", Ev.refused = (have # AllPairs))
               /\ (~Ev.refused => Check(tid, l, "C07:complete-symmetric-zero-diagonal-matrix-of-the-metric",
                       Ev.dense = [r \in 1..n |-> [c \in 1..n |-> IF r = c THEN 0 ELSE IF r > c THEN M(r - 1, c - 1) ELSE M(c - 1, r - 1)]]))
            /\ l' = l + 1 /\ UNCHANGED <<vars, tid>>

TLoad == /\ Strict /\ T.kind = "assembly" /\ l <= Len(T.events) /\ Ev.ev = "load"
         /\ Check(tid, l, "chunk-file-equals-spec-chunk",
                  Ev.file = [x \in 1..Len(Chunk(n, k, Ev.c)) |->
                               <<Chunk(n, k, Ev.c)[x][1], Chunk(n, k, Ev.c)[x][2],
                                 M(Chunk(n, k, Ev.c)[x][1], Chunk(n, k, Ev.c)[x][2])>>])
         /\ Load(Ev.c)
         /\ Check(tid, l, "accumulator-after-combine",
                  Ev.acc = [x \in 1..Len(acc') |-> <<acc'[x][1], acc'[x][2], Map(acc'[x][3])>>])
         /\ l' = l + 1 /\ UNCHANGED tid

TDensify == /\ Strict /\ T.kind = "assembly" /\ l <= Len(T.events) /\ Ev.ev = "densify"
            /\ Densify
            /\ Check(tid, l, "refusal-iff-incomplete", Ev.refused = (result'.kind = "refused"))
            /\ (result'.kind = "dense" =>
                   Check(tid, l, "dense-matrix", Ev.dense = [r \in 1..n |-> [c \in 1..n |-> Map(result'.m[r - 1][c - 1])]]))
            /\ l' = l + 1 /\ UNCHANGED tid

TDone == /\ l = (IF T.kind = "assembly" THEN Len(T.events) + 1 ELSE 2)
         /\ Accept(tid) /\ UNCHANGED tvars

TNext == OneShot \/ TLoad \/ TDensify \/ RLoad \/ RDensify \/ TDone
=============================================================================
