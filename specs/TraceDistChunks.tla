--------------------------- MODULE TraceDistChunks ---------------------------
(* C07, code -> spec.  Trace kinds:                                                                 *)
(*  "chunks"   : the chunks the real get_lower_triangular_indices_chunk returned for (n, k)          *)
(*  "assembly" : one real history: chunks computed with a recording metric, saved, loaded, combined  *)
(*               in a given order (events load(c) with the accumulator after it, then densify)       *)
(*  "metric"   : tokens of d(a,b), d(b,a), d(a,a) of the shipped metric                              *)
(* The assembly history is replayed through the actions Load / Densify of DistChunks.                *)
EXTENDS DistChunks, TraceLib

VARIABLES tid, l
tvars == <<vars, tid, l>>

T == Traces[tid]
Ev == T.events[l]
M(i, j) == T.metric[i + 1][j + 1]                 \* token of the value the metric returned for (theta_i, theta_j)
Map(v) == IF v = 0 THEN 0 ELSE M((v - 1) \div 100, (v - 1) % 100)

TInit == /\ tid \in 1..Len(Traces) /\ l = 1
         /\ n = Traces[tid].n /\ k = Traces[tid].k
         /\ acc = << >> /\ order = << >> /\ result = [kind |-> "none", m |-> << >>]

ChunksOk ==
    /\ Check(tid, 1, "chunk-count", Len(T.chunks) = k)
    /\ Check(tid, 1, "chunks-equal-spec", \A c \in 0..k - 1 : T.chunks[c + 1] = Chunk(n, k, c))
    /\ Check(tid, 1, "arith-properties", ArithOK)

MetricOk ==
    /\ Check(tid, 1, "metric-symmetric-bitwise", T.dab = T.dba)
    /\ Check(tid, 1, "metric-zero-on-identical", T.daa = 0)
    /\ Check(tid, 1, "metric-nonnegative", T.sign \in {"zero", "pos"})

OneShot == /\ T.kind \in {"chunks", "metric"} /\ l = 1 /\ l' = 2
           /\ IF T.kind = "chunks" THEN ChunksOk ELSE MetricOk
           /\ UNCHANGED vars /\ UNCHANGED tid

TLoad == /\ T.kind = "assembly" /\ l <= Len(T.events) /\ Ev.ev = "load"
         /\ Check(tid, l, "chunk-file-equals-spec-chunk",
                  Ev.file = [x \in 1..Len(Chunk(n, k, Ev.c)) |->
                               <<Chunk(n, k, Ev.c)[x][1], Chunk(n, k, Ev.c)[x][2],
                                 M(Chunk(n, k, Ev.c)[x][1], Chunk(n, k, Ev.c)[x][2])>>])
         /\ Load(Ev.c)
         /\ Check(tid, l, "accumulator-after-combine",
                  Ev.acc = [x \in 1..Len(acc') |-> <<acc'[x][1], acc'[x][2], Map(acc'[x][3])>>])
         /\ l' = l + 1 /\ UNCHANGED tid

TDensify == /\ T.kind = "assembly" /\ l <= Len(T.events) /\ Ev.ev = "densify"
            /\ Densify
            /\ Check(tid, l, "refusal-iff-incomplete", Ev.refused = (result'.kind = "refused"))
            /\ (result'.kind = "dense" =>
                   Check(tid, l, "dense-matrix", Ev.dense = [r \in 1..n |-> [c \in 1..n |-> Map(result'.m[r - 1][c - 1])]]))
            /\ l' = l + 1 /\ UNCHANGED tid

TDone == /\ l = (IF T.kind = "assembly" THEN Len(T.events) + 1 ELSE 2)
         /\ Accept(tid) /\ UNCHANGED tvars

TNext == OneShot \/ TLoad \/ TDensify \/ TDone
=============================================================================
