--------------------------- MODULE TraceFunctional ---------------------------
(* Validates logs of real operations against Functional: every "call" event carries the token of its     *)
(* key (declared inputs), of its output, and of the global numpy random state before and after;          *)
(* "perturb" events are the driver's own reseeding between runs.  CheckGlobal = FALSE for uses where      *)
(* only determinism in the key matters (C09 purity / row-wise predictions, C04 non-interference).         *)
EXTENDS Functional, TraceLib
CONSTANT CheckGlobal
VARIABLES tid, l
T == Traces[tid]
Ev == T.events[l]
TInit == tid \in 1..Len(Traces) /\ l = 1 /\ memo = [k \in {} |-> 0] /\ glob = Traces[tid].g0 /\ ok = TRUE
TCall == /\ l <= Len(T.events) /\ Ev.ev = "call"
         /\ Check(tid, l, "same-inputs-same-output:" \o Ev.what, Deterministic(Ev.key, Ev.out))
         /\ (CheckGlobal => Check(tid, l, "global-random-state-untouched-by:" \o Ev.what, Ev.g1 = Ev.g0))
         /\ (CheckGlobal => Check(tid, l, "log-consistent", Ev.g0 = glob))
         /\ Call(Ev.key, Ev.out, IF CheckGlobal THEN Ev.g0 ELSE glob, IF CheckGlobal THEN Ev.g1 ELSE glob)
         /\ l' = l + 1 /\ UNCHANGED tid
TPerturb == l <= Len(T.events) /\ Ev.ev = "perturb" /\ Perturb(Ev.g) /\ l' = l + 1 /\ UNCHANGED tid
TDone == l = Len(T.events) + 1 /\ Accept(tid) /\ UNCHANGED <<vars, tid, l>>
TNext == TCall \/ TPerturb \/ TDone
=============================================================================
