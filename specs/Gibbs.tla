-------------------------------- MODULE Gibbs --------------------------------
(* C08.  One sweep of the Gibbs sampler of the sparse combination model as a SCRIPT: the sequence of    *)
(* random draws in the documented block order, each with the parameters of the full conditional of its    *)
(* block element DERIVED from the model                                                                   *)
(*     y_n ~ N(Fit_n, 1/prec),   Fit_n = alpha + W0[c] + sum_pos V0[d] + sum_k W[c,k] (sum_pos V1[d,k])     *)
(*                                       + sum_k W[c,k] V2[d1,k] V2[d2,k]       (control positions drop out) *)
(*     W0[c] ~ N(0, 1/tau0)   W[c,k] ~ N(0, 1/tau[k])   V0[m] ~ N(0, 1/(phi0[m] eta0))                       *)
(*     V1[m,k] ~ N(0, 1/(phi1[m,k] eta1[k]))   V2[m,k] ~ N(0, 1/(phi2[m,k] eta2[k]))                         *)
(*     prec, tau0 ~ Gamma(a0, b0);  phi | aux ~ Gamma(1/2, aux), aux ~ Gamma(1/2, 1) (same for eta);          *)
(*     tau = cumulative product of gam, gam[0] ~ Gamma(2, 1), gam[d>0] ~ Gamma(3, 1)                          *)
(* as terms over the sampler's state at the moment of the draw (Ref("W", <<c,k>>) ...; "prev" = the value   *)
(* the previous draw of the block returned, for the auxiliary-variable updates).  The residual of           *)
(* observation n for element x is  y_n - Fit_n + (contribution of x to Fit_n), with Fit_n REBUILT from the   *)
(* parameters - never read from the sampler's running fitted values.                                         *)
(* The harness runs real seeded chains, logs every draw's arguments with the state at that moment, and       *)
(* compares them with the evaluated terms; after each block the running fitted values must equal Fit.        *)
(* Design-level invariants (TLC): blocks in the documented order, every element once; Coherent: the         *)
(* observations a block patches in the running fitted values are exactly those whose Fit depends on the      *)
(* element, once each (fails exactly for a row with the same treatment in both positions - AllowSelfPairs).   *)
EXTENDS Terms, SequencesExt, TLC, Json, IOUtils

CONSTANTS NC, ND, MaxRows, MaxD, AllowSelfPairs, Export, UseCases
Cases == IF UseCases THEN JsonDeserialize(IOEnv.CASES_FILE) ELSE << >>
VARIABLES rows, D, phase
vars == <<rows, D, phase>>

RowSet == {r \in [c : 0..NC - 1, d1 : -1..ND - 1, d2 : -1..ND - 1] : AllowSelfPairs \/ r.d1 = -1 \/ r.d1 # r.d2}
Init == /\ phase = 0
        /\ IF UseCases THEN \E x \in 1..Len(Cases) : rows = Cases[x].rows /\ D = Cases[x].D
           ELSE D \in 1..MaxD /\ rows \in UNION {[1..n -> RowSet] : n \in 0..MaxRows}
Next == phase = 0 /\ phase' = 1 /\ UNCHANGED <<rows, D>>

N == Len(rows)
Ks == [k \in 1..D |-> k - 1]
Pos(n) == SelectSeq(<<rows[n].d1, rows[n].d2>>, LAMBDA d : d # -1)          \* the non-control treatments of observation n
Cnt(n, m) == Len(SelectSeq(Pos(n), LAMBDA d : d = m))                        \* how often treatment m occurs in it
Y(n) == Ref("y", <<n - 1>>)
Prec == Ref("prec", << >>)

Fit(n) ==
    LET c == rows[n].c  ps == Pos(n) IN
    Add(<<Ref("alpha", << >>), Ref("W0", <<c>>)>>
        \o [x \in 1..Len(ps) |-> Ref("V0", <<ps[x]>>)]
        \o [k \in 1..D |-> Mul(<<Ref("W", <<c, k - 1>>), Add([x \in 1..Len(ps) |-> Ref("V1", <<ps[x], k - 1>>)])>>)]
        \o (IF Len(ps) = 2 THEN [k \in 1..D |-> Mul(<<Ref("W", <<c, k - 1>>), Ref("V2", <<ps[1], k - 1>>), Ref("V2", <<ps[2], k - 1>>)>>)] ELSE << >>))

ObsOfC(c) == SelectSeq([n \in 1..N |-> n], LAMBDA n : rows[n].c = c)
ObsOfM(m) == SelectSeq([n \in 1..N |-> n], LAMBDA n : Cnt(n, m) > 0)

(* ---- scalar Gaussian blocks: coefficient a_n of the element in Fit_n, prior precision lambda ---- *)
ScalarCond(obs, coef(_), elem, lambda) ==
    LET prc == Add(<<Mul(<<Prec, Add([x \in 1..Len(obs) |-> Sq(Num(coef(obs[x])))])>>), lambda>>) IN
    [mean |-> Div(Mul(<<Prec, Add([x \in 1..Len(obs) |-> Mul(<<Num(coef(obs[x])), Sub(Add(<<Y(obs[x]), Mul(<<Num(coef(obs[x])), elem>>)>>), Fit(obs[x]))>>)])>>), prc),
     sd |-> Div(Num(1), Sqrt(prc))]
PriorScalar(lambda) == [mean |-> Num(0), sd |-> Div(Num(1), Sqrt(lambda))]

W0Draw(c) == LET obs == ObsOfC(c)  one(n) == 1 IN
    [block |-> "W0", fn |-> "normal", idx |-> <<c>>, kind |-> IF obs = << >> THEN "prior" ELSE "cond",
     loc |-> <<(IF obs = << >> THEN PriorScalar(Ref("tau0", << >>)) ELSE ScalarCond(obs, one, Ref("W0", <<c>>), Ref("tau0", << >>))).mean>>,
     scale |-> <<(IF obs = << >> THEN PriorScalar(Ref("tau0", << >>)) ELSE ScalarCond(obs, one, Ref("W0", <<c>>), Ref("tau0", << >>))).sd>>,
     store |-> <<[a |-> "W0", i |-> <<c>>, v |-> F32(Ref("out", <<0>>))]>>, patched |-> obs]
Lam0(m) == Mul(<<Ref("phi0", <<m>>), Ref("eta0", << >>)>>)
V0Draw(m) == LET obs == ObsOfM(m)  cf(n) == Cnt(n, m) IN
    [block |-> "V0", fn |-> "normal", idx |-> <<m>>, kind |-> IF obs = << >> THEN "prior" ELSE "cond",
     loc |-> <<(IF obs = << >> THEN PriorScalar(Lam0(m)) ELSE ScalarCond(obs, cf, Ref("V0", <<m>>), Lam0(m))).mean>>,
     scale |-> <<(IF obs = << >> THEN PriorScalar(Lam0(m)) ELSE ScalarCond(obs, cf, Ref("V0", <<m>>), Lam0(m))).sd>>,
     store |-> <<[a |-> "V0", i |-> <<m>>, v |-> F32(Ref("out", <<0>>))]>>, patched |-> obs]

(* ---- vector Gaussian blocks: design row X_n (a sequence of D terms), prior precisions lam[k] ---- *)
Dot(xs, ys) == Add([k \in 1..Len(xs) |-> Mul(<<xs[k], ys[k]>>)])
VecCond(obs, X(_), elemvec, lam) ==
    LET res(n) == Sub(Add(<<Y(n), Dot(X(n), elemvec)>>), Fit(n)) IN
    [Q |-> [k \in 1..D |-> [l \in 1..D |->
              Add(<<Mul(<<Prec, Add([x \in 1..Len(obs) |-> Mul(<<X(obs[x])[k], X(obs[x])[l]>>)])>>)>> \o (IF k = l THEN <<lam[k]>> ELSE << >>))]],
     b |-> [k \in 1..D |-> Mul(<<Prec, Add([x \in 1..Len(obs) |-> Mul(<<X(obs[x])[k], res(obs[x])>>)])>>)]]
V1Sum(n, k) == Add([x \in 1..Len(Pos(n)) |-> Ref("V1", <<Pos(n)[x], k>>)])
XW(n) == [k \in 1..D |-> IF Len(Pos(n)) = 2 THEN Add(<<V1Sum(n, k - 1), Mul(<<Ref("V2", <<Pos(n)[1], k - 1>>), Ref("V2", <<Pos(n)[2], k - 1>>)>>)>>) ELSE V1Sum(n, k - 1)]
WDraw(c) == LET obs == ObsOfC(c)  lam == [k \in 1..D |-> Ref("tau", <<k - 1>>)]  ev == [k \in 1..D |-> Ref("W", <<c, k - 1>>)] IN
    IF obs = << >>
    THEN [block |-> "W", fn |-> "normal", idx |-> <<c>>, kind |-> "prior", loc |-> [k \in 1..D |-> Num(0)],
          scale |-> [k \in 1..D |-> Div(Num(1), Sqrt(lam[k]))], store |-> [k \in 1..D |-> [a |-> "W", i |-> <<c, k - 1>>, v |-> F32(Ref("out", <<k - 1>>))]], patched |-> obs]
    ELSE [block |-> "W", fn |-> "mvn", idx |-> <<c>>, kind |-> "cond", Q |-> VecCond(obs, XW, ev, lam).Q, b |-> VecCond(obs, XW, ev, lam).b,
          store |-> [k \in 1..D |-> [a |-> "W", i |-> <<c, k - 1>>, v |-> F32(Ref("out", <<k - 1>>))]], patched |-> obs]
\* first-order treatment embedding: X_n[k] = (count of m in n) * W[c_n, k]
XV1(m, n) == [k \in 1..D |-> Mul(<<Num(Cnt(n, m)), Ref("W", <<rows[n].c, k - 1>>)>>)]
\* second-order: X_n[k] = W[c_n, k] * V2[partner, k]   (exactly one position holds m; a self-pair is not linear in V2[m])
Partner(n, m) == IF Pos(n)[1] = m THEN Pos(n)[2] ELSE Pos(n)[1]
XV2(m, n) == [k \in 1..D |-> IF Len(Pos(n)) = 2 THEN Mul(<<Ref("W", <<rows[n].c, k - 1>>), Ref("V2", <<Partner(n, m), k - 1>>)>>) ELSE Num(0)]
SelfPair(n) == Len(Pos(n)) = 2 /\ Pos(n)[1] = Pos(n)[2]
VDraw(name, phi, eta, m, X(_)) ==
    LET obs == ObsOfM(m)  lam == [k \in 1..D |-> Mul(<<Ref(phi, <<m, k - 1>>), Ref(eta, <<k - 1>>)>>)]  ev == [k \in 1..D |-> Ref(name, <<m, k - 1>>)] IN
    IF obs = << >>
    THEN [block |-> name, fn |-> "normal", idx |-> <<m>>, kind |-> "prior", loc |-> [k \in 1..D |-> Num(0)],
          scale |-> [k \in 1..D |-> Div(Num(1), Sqrt(lam[k]))], store |-> [k \in 1..D |-> [a |-> name, i |-> <<m, k - 1>>, v |-> F32(Ref("out", <<k - 1>>))]], patched |-> obs]
    ELSE [block |-> name, fn |-> "mvn", idx |-> <<m>>, kind |-> IF name = "V2" /\ \E x \in 1..Len(obs) : SelfPair(obs[x]) THEN "not-gaussian" ELSE "cond",
          Q |-> VecCond(obs, X, ev, lam).Q, b |-> VecCond(obs, X, ev, lam).b,
          store |-> [k \in 1..D |-> [a |-> name, i |-> <<m, k - 1>>, v |-> F32(Ref("out", <<k - 1>>))]], patched |-> obs]

(* ---- conjugate precision blocks: Gamma(shape, rate + 1e-3) then clip(lower, 1e6) ---- *)
Eps == Rat(1, 1000)
CAll == Div(Num(1), Sqrt(Num(1 + N)))
CM(m) == Div(Num(1), Sqrt(Num(1 + Len(SelectSeq([n \in 1..N |-> n], LAMBDA n : rows[n].d1 = m)) + Len(SelectSeq([n \in 1..N |-> n], LAMBDA n : rows[n].d2 = m)))))
Clipped(lo, x) == [op |-> "clipt", lo |-> lo, hi |-> Num(1000000), x |-> x]        \* clip with a term as lower bound
A0 == Rat(11, 10)
SumSq(ts) == Add([x \in 1..Len(ts) |-> Sq(ts[x])])
GDraw(block, target, shape, rate, store) == [block |-> block, fn |-> "gamma", idx |-> target, kind |-> "cond", shape |-> shape, rate |-> rate, store |-> store, patched |-> << >>]

PrecW0 == GDraw("prec_W0", <<"tau0">>, <<Add(<<A0, Rat(NC, 2)>>)>>,
                <<Add(<<A0, Mul(<<Rat(1, 2), SumSq([c \in 1..NC |-> Ref("W0", <<c - 1>>)])>>), Eps>>)>>,
                <<[a |-> "tau0", i |-> << >>, v |-> Clipped(CAll, Ref("out", <<0>>))]>>)
PrecObs == IF N = 0 THEN GDraw("prec_obs", <<"prec">>, <<A0>>, <<A0>>, <<[a |-> "prec", i |-> << >>, v |-> Ref("out", <<0>>)]>>)
           ELSE GDraw("prec_obs", <<"prec">>, <<Add(<<A0, Rat(N, 2)>>)>>,
                      <<Add(<<A0, Mul(<<Rat(1, 2), SumSq([n \in 1..N |-> Sub(Y(n), Fit(n))])>>), Eps>>)>>,
                      <<[a |-> "prec", i |-> << >>, v |-> Clipped(CAll, Ref("out", <<0>>))]>>)
\* local / global shrinkage of a treatment block with parameters P[m(,k)]: four draws (aux of phi, phi, aux of eta, eta)
Cells0 == [m \in 1..ND |-> <<m - 1>>]
CellsMK == [x \in 1..ND * D |-> <<(x - 1) \div D, (x - 1) % D>>]
Shrink(block, P, phi, eta, cells, etaIdx(_), nEta) ==
    << GDraw(block, <<phi, "aux">>, [x \in 1..Len(cells) |-> Num(1)], [x \in 1..Len(cells) |-> Add(<<Num(1), Ref(phi, cells[x])>>)], << >>),
       GDraw(block, <<phi>>, [x \in 1..Len(cells) |-> Num(1)],
             [x \in 1..Len(cells) |-> Add(<<Ref("prev", <<x - 1>>), Mul(<<Rat(1, 2), Ref(eta, etaIdx(cells[x])), Sq(Ref(P, cells[x]))>>), Eps>>)],
             [x \in 1..Len(cells) |-> [a |-> phi, i |-> cells[x], v |-> Clipped(CM(cells[x][1]), Ref("out", <<x - 1>>))]]),
       GDraw(block, <<eta, "aux">>, [k \in 1..nEta |-> Num(1)], [k \in 1..nEta |-> Add(<<Num(1), Ref(eta, IF nEta = 1 /\ block = "prec_V0" THEN << >> ELSE <<k - 1>>)>>)], << >>),
       GDraw(block, <<eta>>, [k \in 1..nEta |-> Rat(1 + ND, 2)],
             [k \in 1..nEta |-> Add(<<Ref("prev", <<k - 1>>),
                                     Mul(<<Rat(1, 2), Add([m \in 1..ND |-> Mul(<<Ref(phi, IF block = "prec_V0" THEN <<m - 1>> ELSE <<m - 1, k - 1>>),
                                                                               Sq(Ref(P, IF block = "prec_V0" THEN <<m - 1>> ELSE <<m - 1, k - 1>>))>>)])>>), Eps>>)],
             [k \in 1..nEta |-> [a |-> eta, i |-> IF block = "prec_V0" THEN << >> ELSE <<k - 1>>, v |-> Clipped(CAll, Ref("out", <<k - 1>>))]]) >>
PrecV0 == Shrink("prec_V0", "V0", "phi0", "eta0", Cells0, LAMBDA cell : << >>, 1)
PrecV2 == Shrink("prec_V2", "V2", "phi2", "eta2", CellsMK, LAMBDA cell : <<cell[2]>>, D)
PrecV1 == Shrink("prec_V1", "V1", "phi1", "eta1", CellsMK, LAMBDA cell : <<cell[2]>>, D)
\* multiplicative gamma process: tau[k] = gam[0] * ... * gam[k]; the weight of W[c,k]^2 in the conditional of gam[d] is tau[k] / gam[d]
TauOverGam(k, d) == Mul([l \in 1..k + 1 |-> IF l - 1 = d THEN Num(1) ELSE Ref("gam", <<l - 1>>)])
PrecW == [d \in 1..D |->
    GDraw("prec_W", <<"gam", d - 1>>, <<Add(<<Num(IF d = 1 THEN 2 ELSE 3), Rat(NC * (D - (d - 1)), 2)>>)>>,
          <<Add(<<Num(1), Mul(<<Rat(1, 2), Add([x \in 1..NC * (D - (d - 1)) |->
                    Mul(<<TauOverGam((d - 1) + ((x - 1) % (D - (d - 1))), d - 1), Sq(Ref("W", <<(x - 1) \div (D - (d - 1)), (d - 1) + ((x - 1) % (D - (d - 1)))>>))>>)])>>), Eps>>)>>,
          <<[a |-> "gam", i |-> <<d - 1>>, v |-> F32(Ref("out", <<0>>))]>>)]

Script == [c \in 1..NC |-> W0Draw(c - 1)] \o [m \in 1..ND |-> V0Draw(m - 1)] \o [c \in 1..NC |-> WDraw(c - 1)]
          \o [m \in 1..ND |-> VDraw("V2", "phi2", "eta2", m - 1, LAMBDA n : XV2(m - 1, n))] \o [m \in 1..ND |-> VDraw("V1", "phi1", "eta1", m - 1, LAMBDA n : XV1(m - 1, n))]
          \o <<PrecW0>> \o PrecV0 \o <<PrecObs>> \o PrecV2 \o PrecV1 \o PrecW
AlphaTerm == IF N = 0 THEN Ref("alpha", << >>) ELSE Mean([n \in 1..N |-> Y(n)])
FitAll == [n \in 1..N |-> Fit(n)]
TauTerms == [k \in 1..D |-> Clipped(CAll, Mul([l \in 1..k |-> Ref("gam", <<l - 1>>)]))]

(* ---- design-level clauses ---- *)
BlockOrder == <<"W0", "V0", "W", "V2", "V1", "prec_W0", "prec_V0", "prec_obs", "prec_V2", "prec_V1", "prec_W">>
Rank(b) == CHOOSE x \in 1..Len(BlockOrder) : BlockOrder[x] = b
OrderOnce == phase = 1 =>
    /\ \A x \in 1..Len(Script) - 1 : Rank(Script[x].block) <= Rank(Script[x + 1].block)
    /\ \A c \in 0..NC - 1 : Cardinality({x \in 1..Len(Script) : Script[x].block = "W0" /\ Script[x].idx = <<c>>}) = 1
                           /\ Cardinality({x \in 1..Len(Script) : Script[x].block = "W" /\ Script[x].idx = <<c>>}) = 1
    /\ \A m \in 0..ND - 1 : \A b \in {"V0", "V1", "V2"} : Cardinality({x \in 1..Len(Script) : Script[x].block = b /\ Script[x].idx = <<m>>}) = 1
\* Dep(x): how many times Fit_n reads the element; the code patches each observation of `patched` ONCE
DepCount(blk, idx, n) ==
    CASE blk \in {"W0", "W"} -> IF rows[n].c = idx[1] THEN 1 ELSE 0
      [] OTHER -> Cnt(n, idx[1])
Coherent == phase = 1 => \A x \in 1..Len(Script) : Script[x].block \in {"W0", "V0", "W", "V1", "V2"} =>
                \A n \in 1..N : DepCount(Script[x].block, Script[x].idx, n) = (IF \E y \in 1..Len(Script[x].patched) : Script[x].patched[y] = n THEN 1 ELSE 0)
ExportCase == (Export /\ phase = 1) => PrintT(ToJson([tag |-> "gibbs", rows |-> rows, D |-> D, alpha |-> AlphaTerm, fit |-> FitAll, tau |-> TauTerms, script |-> Script]))
=============================================================================
