------------------------------- MODULE Pipeline -------------------------------
(* Growth beyond the listed properties: the whole retrospective active-learning loop as one machine,    *)
(* composing what Lifecycle (reveal), ScoreSelect (candidates / batch), Sampling / ThetaStore (one model   *)
(* per iteration) and Orchestrator (step order, excludes) say separately.                                 *)
(*   state   observed / unobserved plate ids of the training screen, the step (iteration, plate), the       *)
(*           plates selected so far in the current batch, the posterior-sample token of the iteration,       *)
(*           the token of the id mappings                                                                    *)
(*   Step(p) one (iteration, plate) step: a model is trained at plate 0 of an iteration and reused for the   *)
(*           rest of the batch; the plate selected is unobserved and not already in the batch; exactly it    *)
(*           is revealed; the metadata counter is the number of unobserved plates left                       *)
(* The harness runs the REAL script with the REAL command-line programs (prepare, train, distance,          *)
(* scores, select, reveal, metadata) executed in-process along the workflow DAG, and TracePipeline replays   *)
(* one event per completed step through Step.                                                                *)
EXTENDS Naturals, Integers, Sequences, FiniteSets, TLC

CONSTANTS Plates, B, InitObserved
VARIABLES obs, unobs, it, pl, batch, model, nmodels, revealed
vars == <<obs, unobs, it, pl, batch, model, nmodels, revealed>>

Init == /\ obs = InitObserved /\ unobs = Plates \ InitObserved /\ it = 0 /\ pl = 0 /\ batch = << >>
        /\ model = 0 /\ nmodels = 0 /\ revealed = << >>
InBatch == {batch[x] : x \in 1..Len(batch)}
Step(p) == /\ unobs # {}
           /\ p \in unobs /\ p \notin InBatch
           /\ model' = IF pl = 0 THEN nmodels + 1 ELSE model                  \* a new model only at plate 0 of an iteration
           /\ nmodels' = IF pl = 0 THEN nmodels + 1 ELSE nmodels
           /\ obs' = obs \cup {p} /\ unobs' = unobs \ {p}
           /\ revealed' = Append(revealed, p)
           /\ IF pl >= B - 1 THEN it' = it + 1 /\ pl' = 0 /\ batch' = << >>
              ELSE it' = it /\ pl' = pl + 1 /\ batch' = Append(batch, p)
StepAny == \E p \in Plates : Step(p)
Next == StepAny
Spec == Init /\ [][Next]_vars /\ WF_vars(Next)

Partition == obs \cap unobs = {} /\ obs \cup unobs = Plates
NoDoubleReveal == \A a, b \in 1..Len(revealed) : a # b => revealed[a] # revealed[b]
CounterDrops == Cardinality(unobs) = Cardinality(Plates \ InitObserved) - Len(revealed)
OneModelPerIteration == nmodels = it + (IF pl > 0 THEN 1 ELSE 0)
StepArithmetic == Len(revealed) = it * B + pl
Terminates == <>(unobs = {})
=============================================================================
