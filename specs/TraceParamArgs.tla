--------------------------- MODULE TraceParamArgs ---------------------------
(* Conformance of the real option path with ParamArgs.tla.  One trace = one command line: the KEY=VALUE options as given (records     *)
(* k, v; malformed texts under k = "!"), how the real program ended, and the typed dictionary it built (as <<key, type, text>>).    *)
EXTENDS ParamArgs, TraceLib
VARIABLES tid
T == Traces[tid]
TInit == /\ tid \in 1..Len(Traces)
         /\ argv = Traces[tid].argv /\ rest = argv /\ dict = [k \in {} |-> ""] /\ typed = [k \in {} |-> ""] /\ outcome = "parsing"
TypedSet == {<<k, typed[k].type, typed[k].text>> : k \in DOMAIN typed}
Got == {T.typed[i] : i \in 1..Len(T.typed)}
TStep == ~Final /\ Next /\ UNCHANGED tid
TDone == /\ Final
         /\ Check(tid, 1, "program-ends-as-specified:" \o outcome, T.outcome = outcome)
         /\ Check(tid, 1, "constructor-receives-last-values-with-annotated-types", outcome = "ok" => Got = TypedSet)
         /\ Check(tid, 1, "each-key-once", Len(T.typed) = Cardinality(Got))
         /\ Accept(tid) /\ UNCHANGED <<vars, tid>>
TNext == TStep \/ TDone
=============================================================================
