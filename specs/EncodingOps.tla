---------------------------- MODULE EncodingOps ----------------------------
(* The id encoders of batchie.data as pure operators over tokens (shared by Encoding, Lifecycle,     *)
(* Views ...).  A name token is the rank of the string in code-point order; a dose token is a        *)
(* natural that preserves the order of the floats, Zero standing for 0.0 / -0.0.                      *)
EXTENDS Naturals, Integers, Sequences, FiniteSets, SequencesExt

CONSTANT Zero

(* ---------------- the treatment encoder ---------------- *)
PairLess(p, q) == p[1] < q[1] \/ (p[1] = q[1] /\ p[2] < q[2])

Stack(rs, ar) == [x \in 1..(Len(rs) * ar) |-> rs[((x - 1) % Len(rs)) + 1][((x - 1) \div Len(rs)) + 1]]

Uniq(st) == SetToSortSeq({st[x] : x \in 1..Len(st)}, PairLess)

IsCtl(p, c) == p[1] = c \/ p[2] <= Zero

NewIdx(u, c) == [x \in 1..Len(u) |->
                   IF IsCtl(u[x], c) THEN -1
                   ELSE (x - 1) - Cardinality({y \in 1..x : IsCtl(u[y], c)})]

\* a mapping is a sequence of <<name, dose, id>>
MappingOf(st, c) == LET u == Uniq(st) IN [x \in 1..Len(u) |-> <<u[x][1], u[x][2], NewIdx(u, c)[x]>>]

Covered(st, mp) == \A x \in 1..Len(st) : \E y \in 1..Len(mp) : mp[y][1] = st[x][1] /\ mp[y][2] = st[x][2]
Lookup(p, mp) == mp[CHOOSE y \in 1..Len(mp) : mp[y][1] = p[1] /\ mp[y][2] = p[2]][3]

\* numpy_array_is_0_indexed_integers
Valid(idcol) == LET S == {idcol[x] : x \in 1..Len(idcol)} IN
                IF -1 \in S THEN S = {-1} \cup (0..Cardinality(S) - 2) ELSE S = 0..Cardinality(S) - 1

\* ids as a matrix rows x arity (np.vstack(np.split(encoded, arity)).T)
Unstack(flat, nr, ar) == [r \in 1..nr |-> [a \in 1..ar |-> flat[(a - 1) * nr + r]]]

EncodeTreat(rs, ar, c) ==
    LET st == Stack(rs, ar)
        mp == MappingOf(st, c)
    IN [status |-> "ok", mapping |-> mp,
        ids |-> Unstack([x \in 1..Len(st) |-> Lookup(st[x], mp)], Len(rs), ar)]

EncodeTreatWith(rs, ar, mp) ==
    LET st == Stack(rs, ar) IN
    IF ~Valid([y \in 1..Len(mp) |-> mp[y][3]]) THEN [status |-> "invalid-mapping", mapping |-> mp, ids |-> << >>]
    ELSE IF ~Covered(st, mp) THEN [status |-> "failed", mapping |-> mp, ids |-> << >>]
    ELSE [status |-> "ok", mapping |-> mp,
          ids |-> Unstack([x \in 1..Len(st) |-> Lookup(st[x], mp)], Len(rs), ar)]

\* ExperimentSpace.n_unique_treatments
NUniqueTreatments(mp) == Cardinality({mp[y][3] : y \in 1..Len(mp)} \ {-1})

(* ---------------- the 1-d encoder (samples, plates) ---------------- *)
Uniq1(ns) == SetToSortSeq({ns[x] : x \in 1..Len(ns)}, <)
Mapping1(ns) == LET u == Uniq1(ns) IN [x \in 1..Len(u) |-> <<u[x], x - 1>>]
Lookup1(v, mp) == mp[CHOOSE y \in 1..Len(mp) : mp[y][1] = v][2]
Encode1(ns) == LET mp == Mapping1(ns) IN [status |-> "ok", mapping |-> mp, ids |-> [x \in 1..Len(ns) |-> Lookup1(ns[x], mp)]]
Encode1With(ns, mp) ==
    IF ~Valid([y \in 1..Len(mp) |-> mp[y][2]]) THEN [status |-> "invalid-mapping", mapping |-> mp, ids |-> << >>]
    ELSE IF \E x \in 1..Len(ns) : \A y \in 1..Len(mp) : mp[y][1] # ns[x] THEN [status |-> "failed", mapping |-> mp, ids |-> << >>]
    ELSE [status |-> "ok", mapping |-> mp, ids |-> [x \in 1..Len(ns) |-> Lookup1(ns[x], mp)]]
NUniqueSamples(mp) == Cardinality({mp[y][1] : y \in 1..Len(mp)})

=============================================================================
