--------------------------- MODULE TraceComboSpace ---------------------------
(* One trace = one call of the real generate_full_combinatoric_space: the table size, the arity, per produced experiment the table     *)
(* positions of its treatments (0 = not an entry of the table) and its treatment ids, the ids of the table, the sample ids, plate and  *)
(* mask facts.                                                                                                                        *)
EXTENDS ComboSpace, TraceLib
CONSTANT Strict
VARIABLE tid
R == Traces[tid]
TInit == tid \in 1..Len(Traces) /\ T = Traces[tid].T /\ ar = Traces[tid].ar /\ out = << >> /\ phase = 0
Decide ==
    LET o == R.rows IN
    Verdict(tid,
        \* a table with fewer entries than the arity has no combination; the code does not return an empty space then but raises (its
        \* count uses factorial(n - k)): modelled as it is - a refusal exactly in that case
        /\ Check(tid, 1, "refuses-exactly-when-the-table-is-smaller-than-the-arity", R.refused = (R.T < R.ar))
        /\ Check(tid, 1, "treatments-are-entries-of-the-table", \A i \in 1..Len(o) : \A j \in 1..Len(o[i]) : o[i][j] \in 1..R.T)
        /\ Check(tid, 1, "entries-of-one-experiment-are-distinct", DistinctEntries(o, R.ar))
        /\ Check(tid, 1, "every-combination-of-table-entries-exactly-once", R.refused \/ EveryCombinationOnce(o, R.T, R.ar))
        /\ Check(tid, 1, "treatment-ids-are-the-table's", \A i \in 1..Len(o) : \A j \in 1..Len(o[i]) : R.ids[i][j] = R.table_ids[o[i][j]])
        /\ Check(tid, 1, "every-experiment-for-the-requested-sample", \A i \in 1..Len(R.samples) : R.samples[i] = R.sample)
        /\ Check(tid, 1, "one-row-per-experiment", Len(R.samples) = Len(o) /\ Len(R.ids) = Len(o))
        /\ Check(tid, 1, "nothing-observed-one-plate", R.n_observed = 0 /\ R.n_plates <= 1)
        /\ Check(tid, 1, "mappings-are-the-screen's", R.same_mappings)
        /\ (Strict => Check(tid, 1, "rows-in-table-order", R.refused \/ TableOrder(o, R.T, R.ar))))
TNext == UNCHANGED <<vars, tid>>
=============================================================================
