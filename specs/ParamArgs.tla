--------------------------------- MODULE ParamArgs ---------------------------------
(* How a `--model-param KEY=VALUE` (--scorer-param, --policy-param, --metric-param ...) option reaches a constructor
   (batchie/cli/argument_parsing.py: KVAppendAction, cast_dict_to_type, str_to_bool; the get_args functions of the command-line
   programs).  Not behind one of the listed properties; specified because every program of the workflow builds its model, scorer, policy
   and metric through this path, and it has a sequential meaning: the options are consumed one at a time into a dictionary, then the
   dictionary is cast with the annotations of the constructor's REQUIRED parameters.

   One action per step of the code: Consume (one call of KVAppendAction), Cast (cast_dict_to_type over the finished dictionary).
   What the code does is modelled as it is, including two behaviours a reader of the help text may not expect and which are therefore
   named: a value that itself contains `=` is refused (`split("=", 2)` yields three parts), and a key that is not a REQUIRED parameter of
   the class - an optional one included - ends the program with a KeyError rather than a usage message.                                  *)
EXTENDS Integers, Sequences, FiniteSets, TLC

CONSTANTS MaxLen
Keys == {"k_int", "k_bool", "k_float", "k_str", "k_other"}           \* k_other: not among the required parameters
TypeOf == [k \in Keys \ {"k_other"} |-> CASE k = "k_int" -> "int" [] k = "k_bool" -> "bool" [] k = "k_float" -> "float" [] k = "k_str" -> "str"]
Vals == {"7", "0", "1", "2.5", "True", "no", "abc", ""}
\* option texts: KEY=VALUE for every key and value, and three malformed ones
MalformedTexts == {"noequals", "k_int=1=2", "=="}
Wellformed == [k : Keys, v : Vals]
Malformed == [k : {"!"}, v : MalformedTexts]          \* (records like the others, so that TLC can compare tokens)
Tokens == Wellformed \cup Malformed

\* ---- conversions (Python's int(), float(), str_to_bool) on the value texts above ----
IntOk(v) == v \in {"7", "0", "1"}
FloatOk(v) == v \in {"7", "0", "1", "2.5"}
Truthy == {"True", "1"}                        \* lower-cased membership in {true, t, yes, y, 1}
Falsy == {"no", "0"}                           \* ... in {false, f, no, n, 0}
CastOk(t, v) == CASE t = "int" -> IntOk(v) [] t = "float" -> FloatOk(v) [] t = "bool" -> v \in Truthy \cup Falsy [] t = "str" -> TRUE
CastVal(t, v) == CASE t = "bool" -> [type |-> "bool", text |-> IF v \in Truthy THEN "true" ELSE "false"]
                   [] OTHER -> [type |-> t, text |-> v]

VARIABLES argv, rest, dict, typed, outcome
vars == <<argv, rest, dict, typed, outcome>>
\* outcome: "parsing" | "parsed" | "usage-error" (argparse: exit status 2) | "key-error" | "value-error" | "ok"

Seqs == UNION {[1..n -> Tokens] : n \in 0..MaxLen}
Init == argv \in Seqs /\ rest = argv /\ dict = [k \in {} |-> ""] /\ typed = [k \in {} |-> ""] /\ outcome = "parsing"

Consume == /\ outcome = "parsing" /\ rest # << >>
           /\ LET t == Head(rest) IN
              IF t \in Malformed
              THEN outcome' = "usage-error" /\ UNCHANGED dict
              ELSE outcome' = outcome /\ dict' = [k \in DOMAIN dict \cup {t.k} |-> IF k = t.k THEN t.v ELSE dict[k]]
           /\ rest' = Tail(rest) /\ UNCHANGED <<argv, typed>>
EndOfOptions == outcome = "parsing" /\ rest = << >> /\ outcome' = "parsed" /\ UNCHANGED <<argv, rest, dict, typed>>
\* cast_dict_to_type visits the dictionary in insertion order; the first key without an annotation ends it with a KeyError, the first
\* value that does not convert with a ValueError.  Which of several failures is reported first depends on that order; the model keeps
\* to what does not: a KeyError if only keys fail, a ValueError if only values fail, one of the two if both do.
BadKeys == {k \in DOMAIN dict : k \notin DOMAIN TypeOf}
BadVals == {k \in DOMAIN dict \ BadKeys : ~CastOk(TypeOf[k], dict[k])}
Cast == /\ outcome = "parsed"
        /\ \/ BadKeys # {} /\ outcome' = "key-error" /\ UNCHANGED typed
           \/ BadVals # {} /\ outcome' = "value-error" /\ UNCHANGED typed
           \/ BadKeys = {} /\ BadVals = {} /\ outcome' = "ok" /\ typed' = [k \in DOMAIN dict |-> CastVal(TypeOf[k], dict[k])]
        /\ UNCHANGED <<argv, rest, dict>>
Next == Consume \/ EndOfOptions \/ Cast
Spec == Init /\ [][Next]_vars /\ WF_vars(Next)

------------------------------------------------------------------------------------------------------------------------
Final == outcome \in {"usage-error", "key-error", "value-error", "ok"}
Terminates == <>Final
WellformedIn(s) == \A i \in 1..Len(s) : s[i] \notin Malformed
LastOf(s, k) == LET I == {i \in 1..Len(s) : s[i] \notin Malformed /\ s[i].k = k} IN s[CHOOSE i \in I : \A j \in I : j <= i].v
KeysOf(s) == {s[i].k : i \in {j \in 1..Len(s) : s[j] \notin Malformed}}

\* one malformed option anywhere refuses the whole command line with a usage error, whatever else is on it
MalformedRefuses == Final => (outcome = "usage-error" <=> ~WellformedIn(argv))
\* the constructor is reached only with every given key, once, carrying the LAST value given for it, converted to the annotated type
OkMeansLastValueTyped == outcome = "ok" =>
     /\ DOMAIN typed = KeysOf(argv)
     /\ \A k \in DOMAIN typed : typed[k] = CastVal(TypeOf[k], LastOf(argv, k)) /\ typed[k].type = TypeOf[k]
\* nothing is dropped silently: a key the class does not require, or a value that does not convert, never ends in "ok"
NoSilentDrop == outcome = "ok" => (\A k \in KeysOf(argv) : k \in DOMAIN TypeOf /\ CastOk(TypeOf[k], LastOf(argv, k)))
\* an overridden value is never looked at: a bad value followed by a good one for the same key is fine
OverriddenValuesIgnored == (Final /\ WellformedIn(argv) /\ \A k \in KeysOf(argv) : k \in DOMAIN TypeOf /\ CastOk(TypeOf[k], LastOf(argv, k))) => outcome = "ok"
\* the order of options with different keys does not matter for the result (checked through the closed forms above, which do not mention order)
=============================================================================
