-------------------------------- MODULE Terms --------------------------------
(* A tiny symbolic algebra: the numeric modules (Predict, DBAL, Metrics, TrainSet, Gibbs) construct,   *)
(* from the discrete structure of a case, the TERM that the documented model / estimator / metric      *)
(* assigns to each output.  TLC checks structural properties of the terms and exports them as JSON;    *)
(* the harness only evaluates them in IEEE double (harness/terms.py) on the values the real objects    *)
(* hold and compares with what the real function returned.                                             *)
EXTENDS Naturals, Integers, Sequences, FiniteSets

Ref(a, i) == [op |-> "ref", a |-> a, i |-> i]          \* element i (a sequence of indexes) of the named array
Num(n) == [op |-> "num", n |-> n, d |-> 1]
Rat(n, d) == [op |-> "num", n |-> n, d |-> d]
Add(xs) == [op |-> "add", xs |-> xs]
Mul(xs) == [op |-> "mul", xs |-> xs]
Neg(x) == [op |-> "neg", x |-> x]
Sub(x, y) == Add(<<x, Neg(y)>>)
Div(x, y) == [op |-> "div", x |-> x, y |-> y]
Sq(x) == [op |-> "sq", x |-> x]
Sqrt(x) == [op |-> "sqrt", x |-> x]
Mean(xs) == [op |-> "mean", xs |-> xs]
Var(xs) == [op |-> "var", xs |-> xs]                   \* population variance (numpy default, ddof = 0)
Log(x) == [op |-> "log", x |-> x]
Exp(x) == [op |-> "exp", x |-> x]
Expit(x) == [op |-> "expit", x |-> x]
Logit(x) == [op |-> "logit", x |-> x]
Clip(lo, hi, x) == [op |-> "clip", lo |-> lo, hi |-> hi, x |-> x]     \* lo, hi: Num / Rat terms
LSE(xs) == [op |-> "lse", xs |-> xs]                   \* log-sum-exp
F32(x) == [op |-> "f32", x |-> x]                      \* rounding to float32

\* the set of array cells a term reads
RECURSIVE Refs(_)
Refs(t) ==
    CASE t.op = "ref" -> {<<t.a, t.i>>}
      [] t.op = "num" -> {}
      [] t.op \in {"add", "mul", "mean", "var", "lse"} -> UNION {Refs(t.xs[k]) : k \in 1..Len(t.xs)}
      [] t.op = "div" -> Refs(t.x) \cup Refs(t.y)
      [] t.op = "clip" -> Refs(t.x)
      [] OTHER -> Refs(t.x)
=============================================================================
