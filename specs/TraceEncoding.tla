---------------------------- MODULE TraceEncoding ----------------------------
(* C01, code -> spec.  One trace = one real Screen construction projected to tokens; the             *)
(* specification re-encodes the projected input with the operators of Encoding and compares ids,     *)
(* mapping and derived sizes; optionally a second construction of a row subset with the mapping the  *)
(* first one produced (possibly with one entry withheld).                                            *)
EXTENDS Encoding, TraceLib

CONSTANT Strict   \* TRUE: the real output must equal the encoding Encoding.tla computes (ids assigned in sorted order) - conformance of the
                  \*       transcription, a diagnostic; FALSE: the clauses of C01 themselves are evaluated on the real output, whatever
                  \*       numbering the encoder chose - the verdict on the property
VARIABLE tid
T == Traces[tid]

TInit == /\ tid \in 1..Len(Traces)
         /\ rows = << >> /\ ctl = 0 /\ sub = << >> /\ drop = 0 /\ phase = 0 /\ full = None /\ subres = None
TNext == UNCHANGED <<vars, tid>>

WantT == EncodeTreat(T.rows, T.arity, T.ctl)
Want1(ns) == Encode1(ns)
Withheld(mp, d) == IF d = 0 \/ d > Len(mp) THEN mp ELSE [y \in 1..Len(mp) - 1 |-> mp[IF y < d THEN y ELSE y + 1]]

IdsIn(m) == {m[r][a] : r \in 1..Len(m), a \in 1..T.arity}

TreatOk ==
    /\ Check(tid, 1, "treatment-ids", T.got.ids = WantT.ids)
    /\ Check(tid, 1, "treatment-mapping", T.got.mapping = WantT.mapping)
    /\ Check(tid, 1, "n-unique-treatments-bounds-ids", \A i \in IdsIn(T.got.ids) : i < T.got.nut)
    /\ Check(tid, 1, "n-unique-treatments", T.got.nut = NUniqueTreatments(WantT.mapping))
    /\ Check(tid, 1, "sample-ids", T.got.sids = Want1(T.samples).ids /\ T.got.smap = Want1(T.samples).mapping)
    /\ Check(tid, 1, "plate-ids", T.got.pids = Want1(T.plates).ids /\ T.got.pmap = Want1(T.plates).mapping)
    /\ Check(tid, 1, "n-unique-samples-bounds-ids", \A x \in 1..Len(T.got.sids) : T.got.sids[x] < T.got.nus)
    /\ (T.hassub =>
          LET sr == [x \in 1..Len(T.sub) |-> T.rows[T.sub[x]]]
              ss == [x \in 1..Len(T.sub) |-> T.samples[T.sub[x]]]
              w == EncodeTreatWith(sr, T.arity, Withheld(WantT.mapping, T.drop))
              ws == Encode1With(ss, Withheld(Want1(T.samples).mapping, T.sdrop))
          IN /\ Check(tid, 2, "sub-status", T.subgot.ok = (w.status = "ok" /\ ws.status = "ok"))
             /\ (T.subgot.ok =>
                   /\ Check(tid, 2, "sub-ids-verbatim", T.subgot.ids = w.ids)
                   /\ Check(tid, 2, "sub-mapping-returned-unchanged", T.subgot.mapping = w.mapping)
                   /\ Check(tid, 2, "sub-sample-ids-verbatim", T.subgot.sids = ws.ids /\ T.subgot.smap = ws.mapping)
                   /\ Check(tid, 2, "sub-sizes-bound-ids", \A i \in IdsIn(T.subgot.ids) : i < T.subgot.nut)))

(* ---- the clauses of C01 on the real output ---- *)
CellsOf(m) == {<<r, a>> : r \in 1..Len(m), a \in 1..T.arity}
DenseSet(S) == S = 0..Cardinality(S) - 1
RelTreat(rws, ids, mp, nut) ==
    /\ Check(tid, 1, "C01:treatment-id-decodes-to-its-name-and-dose",
             \A c \in CellsOf(ids) : \E y \in 1..Len(mp) : mp[y] = <<rws[c[1]][c[2]][1], rws[c[1]][c[2]][2], ids[c[1]][c[2]]>>)
    /\ Check(tid, 1, "C01:control-sentinel-iff-control-name-or-non-positive-dose",
             \A c \in CellsOf(ids) : (ids[c[1]][c[2]] = -1) <=> IsCtl(rws[c[1]][c[2]], T.ctl))
    /\ Check(tid, 1, "C01:treatment-ids-dense", DenseSet({ids[c[1]][c[2]] : c \in CellsOf(ids)} \ {-1}))
    /\ Check(tid, 1, "C01:equal-treatment-ids-iff-equal-name-and-dose",
             \A c, d \in CellsOf(ids) : (ids[c[1]][c[2]] # -1 /\ ids[d[1]][d[2]] # -1) =>
                 ((ids[c[1]][c[2]] = ids[d[1]][d[2]]) <=> (rws[c[1]][c[2]] = rws[d[1]][d[2]])))
    /\ Check(tid, 1, "C01:experiment-space-size-bounds-every-treatment-id", \A c \in CellsOf(ids) : ids[c[1]][c[2]] < nut)
Rel1(what, names, ids, mp) ==
    /\ Check(tid, 1, "C01:" \o what \o "-id-decodes-to-its-name", \A x \in 1..Len(names) : \E y \in 1..Len(mp) : mp[y] = <<names[x], ids[x]>>)
    /\ Check(tid, 1, "C01:" \o what \o "-ids-dense", DenseSet({ids[x] : x \in 1..Len(ids)}))
    /\ Check(tid, 1, "C01:equal-" \o what \o "-ids-iff-equal-name", \A x, y \in 1..Len(names) : (ids[x] = ids[y]) <=> (names[x] = names[y]))
\* "followed verbatim": the ids are those of the supplied table and the carried table has exactly its entries (in whatever order)
SameEntries(a, b) == Len(a) = Len(b) /\ {a[x] : x \in 1..Len(a)} = {b[x] : x \in 1..Len(b)}
RelOk ==
    /\ RelTreat(T.rows, T.got.ids, T.got.mapping, T.got.nut)
    /\ Rel1("sample", T.samples, T.got.sids, T.got.smap)
    /\ Rel1("plate", T.plates, T.got.pids, T.got.pmap)
    /\ Check(tid, 1, "C01:experiment-space-size-bounds-every-sample-id", \A x \in 1..Len(T.got.sids) : T.got.sids[x] < T.got.nus)
    /\ (T.hassub =>
          LET sr == [x \in 1..Len(T.sub) |-> T.rows[T.sub[x]]]
              ss == [x \in 1..Len(T.sub) |-> T.samples[T.sub[x]]]
              sup == Withheld(T.got.mapping, T.drop)              \* the mapping batchie itself produced, one entry possibly withheld
              ssup == Withheld(T.got.smap, T.sdrop)
              w == EncodeTreatWith(sr, T.arity, sup)
              ws == Encode1With(ss, ssup)
          IN /\ Check(tid, 2, "C01:supplied-mapping-accepted-iff-dense-and-covering", T.subgot.ok = (w.status = "ok" /\ ws.status = "ok"))
             /\ (T.subgot.ok =>
                   /\ Check(tid, 2, "C01:supplied-treatment-mapping-followed-verbatim", T.subgot.ids = w.ids /\ SameEntries(T.subgot.mapping, sup))
                   /\ Check(tid, 2, "C01:supplied-sample-mapping-followed-verbatim", T.subgot.sids = ws.ids /\ SameEntries(T.subgot.smap, ssup))
                   /\ Check(tid, 2, "C01:sizes-from-supplied-mapping-bound-ids", \A i \in IdsIn(T.subgot.ids) : i < T.subgot.nut)))

Decide == Verdict(tid, IF Strict THEN TreatOk ELSE RelOk)
=============================================================================
