---------------------------- MODULE TraceEncoding ----------------------------
(* C01, code -> spec.  One trace = one real Screen construction projected to tokens; the             *)
(* specification re-encodes the projected input with the operators of Encoding and compares ids,     *)
(* mapping and derived sizes; optionally a second construction of a row subset with the mapping the  *)
(* first one produced (possibly with one entry withheld).                                            *)
EXTENDS Encoding, TraceLib

VARIABLE tid
T == Traces[tid]

TInit == /\ tid \in 1..Len(Traces)
         /\ rows = << >> /\ ctl = 0 /\ sub = << >> /\ drop = 0 /\ phase = 0 /\ full = None /\ subres = None
TNext == UNCHANGED <<vars, tid>>

WantT == EncodeTreat(T.rows, T.arity, T.ctl)
Want1(ns) == Encode1(ns)
Withheld(mp, d) == IF d = 0 \/ d > Len(mp) THEN mp ELSE [y \in 1..Len(mp) - 1 |-> mp[IF y < d THEN y ELSE y + 1]]

IdsIn(m) == {m[r][a] : r \in 1..Len(m), a \in 1..T.arity}

TreatOk ==
    /\ Check(tid, 1, "treatment-ids", T.got.ids = WantT.ids)
    /\ Check(tid, 1, "treatment-mapping", T.got.mapping = WantT.mapping)
    /\ Check(tid, 1, "n-unique-treatments-bounds-ids", \A i \in IdsIn(T.got.ids) : i < T.got.nut)
    /\ Check(tid, 1, "n-unique-treatments", T.got.nut = NUniqueTreatments(WantT.mapping))
    /\ Check(tid, 1, "sample-ids", T.got.sids = Want1(T.samples).ids /\ T.got.smap = Want1(T.samples).mapping)
    /\ Check(tid, 1, "plate-ids", T.got.pids = Want1(T.plates).ids /\ T.got.pmap = Want1(T.plates).mapping)
    /\ Check(tid, 1, "n-unique-samples-bounds-ids", \A x \in 1..Len(T.got.sids) : T.got.sids[x] < T.got.nus)
    /\ (T.hassub =>
          LET sr == [x \in 1..Len(T.sub) |-> T.rows[T.sub[x]]]
              ss == [x \in 1..Len(T.sub) |-> T.samples[T.sub[x]]]
              w == EncodeTreatWith(sr, T.arity, Withheld(WantT.mapping, T.drop))
              ws == Encode1With(ss, Withheld(Want1(T.samples).mapping, T.sdrop))
          IN /\ Check(tid, 2, "sub-status", T.subgot.ok = (w.status = "ok" /\ ws.status = "ok"))
             /\ (T.subgot.ok =>
                   /\ Check(tid, 2, "sub-ids-verbatim", T.subgot.ids = w.ids)
                   /\ Check(tid, 2, "sub-mapping-returned-unchanged", T.subgot.mapping = w.mapping)
                   /\ Check(tid, 2, "sub-sample-ids-verbatim", T.subgot.sids = ws.ids /\ T.subgot.smap = ws.mapping)
                   /\ Check(tid, 2, "sub-sizes-bound-ids", \A i \in IdsIn(T.subgot.ids) : i < T.subgot.nut)))

Decide == Verdict(tid, TreatOk)
=============================================================================
