--------------------------- MODULE TraceScoreSelect ---------------------------
(* C06, code -> spec: one trace = one real scoring round: per chunk the plate ids and row selections   *)
(* handed to the (recording) scorer, the holder contents after save/load/concat in some order, what     *)
(* the policy allowed, and what select_next_plate (or the CLI) returned.                                *)
EXTENDS ScoreSelect, TraceLib
CONSTANT Strict   \* TRUE: additionally the chunk boundaries (np.array_split) and the holder's entry order of ScoreSelect.tla (drift note);
                  \* FALSE: only what C06 states (the verdict)
VARIABLE tid
T == Traces[tid]
SetOf(q) == {q[x] : x \in 1..Len(q)}
TInit == /\ tid \in 1..Len(Traces) /\ observed = {} /\ batch = {} /\ nchunks = 1 /\ score = << >>
         /\ phase = 0 /\ order = << >> /\ holder = << >> /\ allowed = {} /\ best = {}
TNext == UNCHANGED <<vars, tid>>
Ok == LET obs == SetOf(T.observed)  bt == SetOf(T.batch)  cs == CandOf(obs, bt)  n == T.nchunks
          \* size_mode: the scores were produced by the real calculate_scores command with the shipped SizeScorer,
          \* i.e. the number of experiments the candidate was scored on (its own rows, or one per condition of the union with the batch)
          sizeOf(p) == IF bt \cap Plates = {} THEN Cardinality(RowsOf(p)) ELSE Cardinality({Fix.klass[x] : x \in Union(p, bt \cap Plates)})
          sc(p) == IF T.size_mode THEN sizeOf(p) ELSE T.score[p + 1]
          al == SetOf(T.allowed) IN
      /\ (Strict => Check(tid, 1, "chunk-plates", \A i \in 0..n - 1 : T.chunks[i + 1].plates = ChunkOf(cs, n, i)))
      /\ Check(tid, 1, "only-candidates-are-scored", \A i \in 1..n : SetOf(T.chunks[i].plates) \subseteq SetOf(cs))
      /\ Check(tid, 1, "each-candidate-scored-once",
               \A p \in SetOf(cs) : Cardinality({<<i, y>> \in (1..n) \X (1..Len(cs)) : y <= Len(T.chunks[i].plates) /\ T.chunks[i].plates[y] = p}) = 1)
      /\ Check(tid, 1, "conditioned-rows", T.size_mode \/ \A i \in 1..n : \A y \in 1..Len(T.chunks[i].plates) :
               SetOf(T.chunks[i].rows[y]) \in CondChoices(T.chunks[i].plates[y], bt \cap Plates))
      /\ (Strict => Check(tid, 2, "holder-after-combine", T.holder = [x \in 1..Len(T.order_cat) |-> <<T.order_cat[x], sc(T.order_cat[x])>>]))
      /\ Check(tid, 2, "combined-scores-hold-every-candidate-once-with-its-score",
               /\ Len(T.holder) = Len(cs) /\ {T.holder[x][1] : x \in 1..Len(T.holder)} = SetOf(cs)
               /\ \A x \in 1..Len(T.holder) : T.holder[x][2] = sc(T.holder[x][1]))
      /\ Check(tid, 3, "allowed-are-candidates", al \subseteq SetOf(cs))
      /\ Check(tid, 3, "none-iff-nothing-allowed", (T.chosen = -1) <=> (al = {}))
      /\ Check(tid, 3, "chosen-allowed-and-minimal", T.chosen = -1 \/ (T.chosen \in al /\ \A q \in al : sc(q) >= sc(T.chosen)))
Decide == Verdict(tid, Ok)
=============================================================================
