--------------------------- MODULE TraceBatchIter ---------------------------
(* Conformance of the real BatchIterator (batchie/models/grid_helper.py) with BatchIter.tla.  One trace = one iterator object:   *)
(* its parameters, the length it announces, and one event per call of __iter__ / __next__ (returned or StopIteration) with the   *)
(* object's counters after the call, the ordering in effect and the rows it handed out (1-based row numbers read off the          *)
(* returned tensors, for the first and for the second argument).                                                               *)
EXTENDS BatchIter, TraceLib
VARIABLES tid, l, ord
T == Traces[tid]
Ev == T.events[l]
N == T.par.n
IsPerm(s) == Len(s) = N /\ {s[k] : k \in 1..Len(s)} = 1..N
Identity == [k \in 1..N |-> k]
TInit == /\ tid \in 1..Len(Traces) /\ l = 1 /\ ord = << >>
         /\ par = Traces[tid].par
         /\ step = 0 /\ index = 0 /\ epoch = 0 /\ phase = "new" /\ batch = <<>> /\ got = <<>> /\ wraps = 0 /\ iters = 0
Counters == /\ Check(tid, l, "step-counter:" \o Ev.op, Ev.step = step')
            /\ Check(tid, l, "index-counter:" \o Ev.op, Ev.index = index')
            /\ Check(tid, l, "epoch-counter:" \o Ev.op, Ev.epoch = epoch')
            /\ Check(tid, l, "just-passed-epoch-reported:" \o Ev.op, Ev.jpe = (index' >= N))
TIter == /\ Ev.op = "iter" /\ Iter
         /\ Check(tid, l, "announced-length-is-the-number-of-batches", T.len = Total(par))
         /\ Counters
         /\ Check(tid, l, "ordering-is-a-permutation-of-the-rows", IsPerm(Ev.ordering))
         /\ Check(tid, l, "ordering-is-the-identity-without-shuffling", T.shuffle \/ Ev.ordering = Identity)
         /\ ord' = Ev.ordering
TNextB == /\ Ev.op = "next"
          /\ Check(tid, l, "batch-delivered-only-while-steps-remain", phase = "iterating" /\ step < Total(par))
          /\ NextBatch
          /\ Counters
          /\ Check(tid, l, "ordering-is-a-permutation-of-the-rows", IsPerm(Ev.ordering))
          /\ Check(tid, l, "ordering-is-the-identity-without-shuffling", T.shuffle \/ Ev.ordering = Identity)
          /\ Check(tid, l, "ordering-kept-within-an-epoch", wraps' # wraps \/ Ev.ordering = ord)
          /\ Check(tid, l, "batch-is-the-next-slice-of-the-ordering", Ev.batch = [k \in 1..Len(batch') |-> Ev.ordering[batch'[k]]])
          /\ Check(tid, l, "every-argument-sliced-alike", Ev.batch2 = Ev.batch)
          /\ Check(tid, l, "combination-draws-follow-the-rows", Ev.combo_ok)
          /\ Check(tid, l, "number-of-returned-tensors", Ev.n_out = 2 + (IF T.combo THEN 1 ELSE 0))
          /\ ord' = Ev.ordering
TStop == /\ Ev.op = "stop"
         /\ Check(tid, l, "stops-exactly-after-the-announced-length", phase = "iterating" /\ step >= Total(par))
         /\ Stop
         /\ Counters
         /\ UNCHANGED ord
TStep == l <= Len(T.events) /\ (TIter \/ TNextB \/ TStop) /\ l' = l + 1 /\ UNCHANGED tid
TDone == l = Len(T.events) + 1 /\ Accept(tid) /\ UNCHANGED <<vars, tid, l, ord>>
TNext == TStep \/ TDone
\* the invariants of BatchIter.tla, evaluated on every state a real trace reaches (named, as a constraint: a failure rejects the trace)
TInv == /\ Check(tid, l, "inv:steps-within-total", StepsWithinTotal)
        /\ Check(tid, l, "inv:epoch-is-a-prefix", EpochIsAPrefix)
        /\ Check(tid, l, "inv:just-passed-means-complete", JustPassedMeansComplete)
        /\ Check(tid, l, "inv:batch-sizes", BatchSizes)
        /\ Check(tid, l, "inv:epoch-counts-wraps", EpochCountsWraps)
        /\ Check(tid, l, "inv:closed-form-position", ClosedForm)
=============================================================================
