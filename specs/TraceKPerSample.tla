--------------------------- MODULE TraceKPerSample ---------------------------
(* C16, code -> spec.  A trace is one real batch construction through select_next_plate with the     *)
(* k-per-sample policy (wrapped to record what it returned): per step the allowed ids the policy     *)
(* returned, the score ranks, and the plate select_next_plate chose.  Kind "multi": the policy is     *)
(* handed plates with the given sample sets and must refuse iff one of them is not single-sample.     *)
EXTENDS KPerSample, TraceLib

CONSTANT Strict   \* TRUE: the policy returns exactly KPerSample!Allowed (conformance of the transcription; reported as drift)
                  \* FALSE: the clauses of C16 are evaluated on the set the policy actually returned (the verdict)
VARIABLES tid, l
T == Traces[tid]
Ev == T.steps[l]

TInit == /\ tid \in 1..Len(Traces) /\ l = 1
         /\ k = Traces[tid].k
         /\ sampleOf = [p \in 0..Len(Traces[tid].sampleOf) - 1 |-> Traces[tid].sampleOf[p + 1]]
         /\ observed = [p \in 0..Len(Traces[tid].observed) - 1 |-> Traces[tid].observed[p + 1]]
         /\ batch = Traces[tid].batch0            \* (empty for walks; an explored state of KPerSample.tla for single-step replays)
         /\ flow = Traces[tid].flow

\* constants of KPerSample are only used by its Init; the trace supplies the configuration
TPlates == 0..Len(T.sampleOf) - 1
TRemaining(b) == {p \in TPlates : ~observed[p] /\ p \notin InBatch(b)}
TAllowed(b) ==
    LET rc(s) == Cardinality({p \in TRemaining(b) : sampleOf[p] = s})
        bc(s) == Cardinality({p \in InBatch(b) : sampleOf[p] = s})
        S == {sampleOf[p] : p \in TPlates}
        inc == {s \in S : bc(s) > 0 /\ bc(s) < k}
        first(s) == CHOOSE p \in InBatch(b) : sampleOf[p] = s /\ \A q \in InBatch(b) : sampleOf[q] = s => p <= q
        ch == IF inc = {} THEN -1 ELSE CHOOSE s \in inc : \A t \in inc : first(t) <= first(s)
    IN IF ch # -1 THEN {p \in TRemaining(b) : sampleOf[p] = ch}
       ELSE {p \in TRemaining(b) : ~(rc(sampleOf[p]) > 0 /\ rc(sampleOf[p]) < k) /\ bc(sampleOf[p]) = 0}

\* the clauses of C16 on a returned set A
Rc(b, s) == Cardinality({p \in TRemaining(b) : sampleOf[p] = s})
Bc(b, s) == Cardinality({p \in InBatch(b) : sampleOf[p] = s})
TSamples == {sampleOf[p] : p \in TPlates}
RelAllowed(A) ==
    /\ Check(tid, l, "C16:allowed-are-unobserved-and-not-in-the-batch", A \subseteq TRemaining(batch))
    /\ Check(tid, l, "C16:only-the-sample-in-progress-and-at-least-one",
             \A s \in TSamples : (Bc(batch, s) >= 1 /\ Bc(batch, s) <= k - 1) => (A # {} /\ \A p \in A : sampleOf[p] = s))
    /\ Check(tid, l, "C16:new-sample-opened-only-if-k-of-its-plates-remain",
             \A p \in A : Bc(batch, sampleOf[p]) = 0 => Rc(batch, sampleOf[p]) >= k)
AllowedOk(A) == IF Strict THEN Check(tid, l, "allowed-set", A = TAllowed(batch)) ELSE RelAllowed(A)
TSelect == /\ T.kind = "walk" /\ l <= Len(T.steps) /\ Ev.ev = "select"
           /\ LET A == {Ev.allowed[x] : x \in 1..Len(Ev.allowed)} IN
              /\ AllowedOk(A)
              /\ Check(tid, l, "chosen-is-allowed", Ev.chosen \in A)
              /\ Check(tid, l, "chosen-has-minimal-score", \A q \in A : Ev.rank[Ev.chosen + 1] <= Ev.rank[q + 1])
           /\ batch' = Append(batch, Ev.chosen)
           /\ observed' = IF flow = "retrospective" THEN [observed EXCEPT ![Ev.chosen] = TRUE] ELSE observed
           /\ l' = l + 1 /\ UNCHANGED <<k, sampleOf, flow, tid>>
TEnd == /\ T.kind = "walk" /\ l <= Len(T.steps) /\ Ev.ev = "none"
        /\ AllowedOk({Ev.allowed[x] : x \in 1..Len(Ev.allowed)})
        /\ Check(tid, l, "nothing-returned-only-if-nothing-allowed", Len(Ev.allowed) = 0)
        /\ l' = l + 1 /\ UNCHANGED <<k, sampleOf, observed, batch, flow, tid>>
TMulti == /\ T.kind = "multi" /\ l = 1
          /\ Check(tid, l, "refuse-iff-multi-sample-plate",
                   T.raised = (\E x \in 1..Len(T.plate_samples) : Len(T.plate_samples[x]) # 1))
          /\ l' = 2 /\ UNCHANGED <<k, sampleOf, observed, batch, flow, tid>>
TDone == /\ l = (IF T.kind = "walk" THEN Len(T.steps) + 1 ELSE 2)
         /\ Accept(tid) /\ UNCHANGED <<vars, tid, l>>
TNext == TSelect \/ TEnd \/ TMulti \/ TDone

\* the C16 clauses evaluated on every state of every real walk
TInv == /\ \A s \in {sampleOf[p] : p \in TPlates} :
              LET bc == Cardinality({p \in InBatch(batch) : sampleOf[p] = s}) IN
              /\ bc <= k
              /\ (Len(batch) % k = 0 => bc \in {0, k})
        /\ Cardinality({s \in {sampleOf[p] : p \in TPlates} :
              LET bc == Cardinality({p \in InBatch(batch) : sampleOf[p] = s}) IN bc > 0 /\ bc < k}) <= 1
\* the same as a CONSTRAINT: a violated consequence is reported by name and the trace is cut there
TInvClauses ==
    /\ Check(tid, l, "C16:no-sample-with-more-than-k-plates-in-the-batch",
             \A s \in TSamples : Bc(batch, s) <= k)
    /\ Check(tid, l, "C16:every-batch-of-m-times-k-plates-gives-each-sample-zero-or-k",
             Len(batch) % k = 0 => \A s \in TSamples : Bc(batch, s) \in {0, k})
    /\ Check(tid, l, "C16:at-most-one-incomplete-sample",
             Cardinality({s \in TSamples : Bc(batch, s) > 0 /\ Bc(batch, s) < k}) <= 1)
=============================================================================
