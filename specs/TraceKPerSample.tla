--------------------------- MODULE TraceKPerSample ---------------------------
(* C16, code -> spec.  A trace is one real batch construction through select_next_plate with the     *)
(* k-per-sample policy (wrapped to record what it returned): per step the allowed ids the policy     *)
(* returned, the score ranks, and the plate select_next_plate chose.  Kind "multi": the policy is     *)
(* handed plates with the given sample sets and must refuse iff one of them is not single-sample.     *)
EXTENDS KPerSample, TraceLib

VARIABLES tid, l
T == Traces[tid]
Ev == T.steps[l]

TInit == /\ tid \in 1..Len(Traces) /\ l = 1
         /\ k = Traces[tid].k
         /\ sampleOf = [p \in 0..Len(Traces[tid].sampleOf) - 1 |-> Traces[tid].sampleOf[p + 1]]
         /\ observed = [p \in 0..Len(Traces[tid].observed) - 1 |-> Traces[tid].observed[p + 1]]
         /\ batch = << >>
         /\ flow = Traces[tid].flow

\* constants of KPerSample are only used by its Init; the trace supplies the configuration
TPlates == 0..Len(T.sampleOf) - 1
TRemaining(b) == {p \in TPlates : ~observed[p] /\ p \notin InBatch(b)}
TAllowed(b) ==
    LET rc(s) == Cardinality({p \in TRemaining(b) : sampleOf[p] = s})
        bc(s) == Cardinality({p \in InBatch(b) : sampleOf[p] = s})
        S == {sampleOf[p] : p \in TPlates}
        inc == {s \in S : bc(s) > 0 /\ bc(s) < k}
        first(s) == CHOOSE p \in InBatch(b) : sampleOf[p] = s /\ \A q \in InBatch(b) : sampleOf[q] = s => p <= q
        ch == IF inc = {} THEN -1 ELSE CHOOSE s \in inc : \A t \in inc : first(t) <= first(s)
    IN IF ch # -1 THEN {p \in TRemaining(b) : sampleOf[p] = ch}
       ELSE {p \in TRemaining(b) : ~(rc(sampleOf[p]) > 0 /\ rc(sampleOf[p]) < k) /\ bc(sampleOf[p]) = 0}

TSelect == /\ T.kind = "walk" /\ l <= Len(T.steps) /\ Ev.ev = "select"
           /\ Check(tid, l, "allowed-set", {Ev.allowed[x] : x \in 1..Len(Ev.allowed)} = TAllowed(batch))
           /\ Check(tid, l, "chosen-is-allowed", Ev.chosen \in TAllowed(batch))
           /\ Check(tid, l, "chosen-has-minimal-score", \A q \in TAllowed(batch) : Ev.rank[Ev.chosen + 1] <= Ev.rank[q + 1])
           /\ batch' = Append(batch, Ev.chosen)
           /\ observed' = IF flow = "retrospective" THEN [observed EXCEPT ![Ev.chosen] = TRUE] ELSE observed
           /\ l' = l + 1 /\ UNCHANGED <<k, sampleOf, flow, tid>>
TEnd == /\ T.kind = "walk" /\ l <= Len(T.steps) /\ Ev.ev = "none"
        /\ Check(tid, l, "nothing-returned-only-if-nothing-allowed", TAllowed(batch) = {})
        /\ Check(tid, l, "policy-returned-empty", Len(Ev.allowed) = 0)
        /\ l' = l + 1 /\ UNCHANGED <<k, sampleOf, observed, batch, flow, tid>>
TMulti == /\ T.kind = "multi" /\ l = 1
          /\ Check(tid, l, "refuse-iff-multi-sample-plate",
                   T.raised = (\E x \in 1..Len(T.plate_samples) : Len(T.plate_samples[x]) # 1))
          /\ l' = 2 /\ UNCHANGED <<k, sampleOf, observed, batch, flow, tid>>
TDone == /\ l = (IF T.kind = "walk" THEN Len(T.steps) + 1 ELSE 2)
         /\ Accept(tid) /\ UNCHANGED <<vars, tid, l>>
TNext == TSelect \/ TEnd \/ TMulti \/ TDone

\* the C16 clauses evaluated on every state of every real walk
TInv == /\ \A s \in {sampleOf[p] : p \in TPlates} :
              LET bc == Cardinality({p \in InBatch(batch) : sampleOf[p] = s}) IN
              /\ bc <= k
              /\ (Len(batch) % k = 0 => bc \in {0, k})
        /\ Cardinality({s \in {sampleOf[p] : p \in TPlates} :
              LET bc == Cardinality({p \in InBatch(batch) : sampleOf[p] = s}) IN bc > 0 /\ bc < k}) <= 1
=============================================================================
