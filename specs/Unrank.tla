------------------------------- MODULE Unrank -------------------------------
(* C15.  generate_combination_at_sorted_index (scoring/gaussian_dbal.py) transcribed register by   *)
(* register as a small-step machine, next to the mathematical definition of unranking in the       *)
(* combinatorial number system.  One action per statement group of the Python generator:           *)
(*   Binom  - one iteration of the first loop  (n_ck *= n-i ; n_ck //= i+1)                        *)
(*   Outer  - head of `for k in range(k,0,-1)`  (n_ck *= k ; n_ck //= n)                            *)
(*   While  - one iteration of the inner while loop                                                *)
(*   Yield  - `n -= 1 ; yield n`                                                                   *)
(* A division by zero in the code is the explicit state pc = "zerodiv" (never reachable for valid  *)
(* inputs: invariant NoZeroDiv).                                                                   *)
EXTENDS Naturals, Integers, Sequences, TLC, Json, IOUtils

CONSTANTS MaxN, MaxK, Export,
          UsePoints   \* TRUE: initial states are the sampled (n, k, index) points of the file $POINTS_FILE
                      \* (large n, the production regime); FALSE: every n <= MaxN, k <= MaxK, index < C(n,k)

Points == IF UsePoints THEN JsonDeserialize(IOEnv.POINTS_FILE) ELSE << >>

VARIABLES n0, k0, idx0,     \* the call's arguments
          n, kk, nck, cur,  \* registers of the generator (n, k, n_ck, current_index)
          i,                \* iteration counter of the first loop
          out, pc

vars == <<n0, k0, idx0, n, kk, nck, cur, i, out, pc>>

(* ---------------- mathematics ---------------- *)
\* binomial coefficients in closed form for b <= 4, ordered so that no intermediate product exceeds
\* the result by more than a factor 4 (TLC integers are 32 bit): exact for a <= 2343 (b = 3), a <= 300 (b = 4)
C2(a) == IF a % 2 = 0 THEN (a \div 2) * (a - 1) ELSE a * ((a - 1) \div 2)
C3(a) == IF a < 3 THEN 0
         ELSE IF (a - 2) % 3 = 0 THEN C2(a) * ((a - 2) \div 3) ELSE (C2(a) \div 3) * (a - 2)
C4(a) == IF a < 4 THEN 0
         ELSE IF (a - 3) % 4 = 0 THEN C3(a) * ((a - 3) \div 4)
         ELSE IF (a - 3) % 2 = 0 THEN (C3(a) \div 2) * ((a - 3) \div 2)
         ELSE (C3(a) \div 4) * (a - 3)
Cf[a \in Nat, b \in 0..4] ==
    CASE b = 0 -> 1 [] b = 1 -> a [] b = 2 -> C2(a) [] b = 3 -> C3(a) [] b = 4 -> C4(a)

\* largest a with Cf[a,k] <= x   (k >= 1, a < n)
RECURSIVE Largest(_, _, _)
Largest(a, k, x) == IF Cf[a, k] <= x THEN a ELSE Largest(a - 1, k, x)

\* the combination of rank x among the k-subsets of 0..m-1, as a strictly descending sequence
RECURSIVE UnrankF(_, _, _)
UnrankF(x, m, k) ==
    IF k = 0 THEN << >>
    ELSE LET a == Largest(m - 1, k, x) IN << a >> \o UnrankF(x - Cf[a, k], a, k - 1)

RECURSIVE Rank(_)
Rank(s) == IF s = << >> THEN 0 ELSE Cf[Head(s), Len(s)] + Rank(Tail(s))

Descending(s) == \A a \in 1..Len(s) - 1 : s[a] > s[a + 1]
InRange(s, m) == \A a \in 1..Len(s) : s[a] \in 0..m - 1

(* ---------------- the machine ---------------- *)
Init == /\ IF UsePoints
           THEN \E p \in 1..Len(Points) : n0 = Points[p].n /\ k0 = Points[p].k /\ idx0 = Points[p].idx
           ELSE /\ n0 \in 0..MaxN /\ k0 \in 0..MaxK
                /\ idx0 \in 0..(IF Cf[n0, k0] = 0 THEN -1 ELSE Cf[n0, k0] - 1)
        /\ n = n0 /\ kk = k0 /\ nck = 1 /\ cur = 0 /\ i = 0 /\ out = << >>
        /\ pc = "binom"

Binom == /\ pc = "binom"
         /\ IF i < k0
            THEN /\ nck' = (nck * (n0 - i)) \div (i + 1)
                 /\ i' = i + 1
                 /\ UNCHANGED <<cur, pc, kk>>
            ELSE /\ cur' = nck /\ kk' = k0
                 /\ pc' = IF k0 = 0 THEN "done" ELSE "outer"
                 /\ UNCHANGED <<nck, i>>
         /\ UNCHANGED <<n0, k0, idx0, n, out>>

Outer == /\ pc = "outer"
         /\ IF n = 0 THEN pc' = "zerodiv" /\ UNCHANGED nck
            ELSE nck' = (nck * kk) \div n /\ pc' = "while"
         /\ UNCHANGED <<n0, k0, idx0, n, kk, cur, i, out>>

While == /\ pc = "while"
         /\ IF cur - nck > idx0
            THEN LET c1 == cur - nck
                     a1 == nck * (n - kk)
                     a2 == a1 - (a1 % kk)
                     n1 == n - 1
                 IN IF n1 = 0 THEN pc' = "zerodiv" /\ UNCHANGED <<cur, nck, n, out, kk>>
                    ELSE /\ cur' = c1 /\ n' = n1 /\ nck' = a2 \div n1
                         /\ UNCHANGED <<pc, out, kk>>
            ELSE \* Yield: n -= 1; yield n; next k
                 /\ n' = n - 1
                 /\ out' = Append(out, n - 1)
                 /\ kk' = kk - 1
                 /\ pc' = IF kk - 1 = 0 THEN "done" ELSE "outer"
                 /\ UNCHANGED <<cur, nck>>
         /\ UNCHANGED <<n0, k0, idx0, i>>

Done == pc \in {"done", "zerodiv"} /\ UNCHANGED vars

Next == Binom \/ Outer \/ While \/ Done

Spec == Init /\ [][Next]_vars

(* ---------------- properties ---------------- *)
NoZeroDiv == pc # "zerodiv"

\* registers never go negative while running (the code relies on floor division of naturals)
Natural == nck >= 0 /\ cur >= 0 /\ n >= 0

BinomRight == pc \in {"outer"} /\ kk = k0 => cur = Cf[n0, k0]

Post == pc = "done" =>
          /\ Len(out) = k0
          /\ Descending(out)
          /\ InRange(out, n0)
          /\ Rank(out) = idx0              \* left inverse of the ranking => injective; domain size C(n,k) => bijective
          /\ out = UnrankF(idx0, n0, k0)   \* agrees with the mathematical definition

\* export of every (index, n, k) -> tuple pair for replay into get_combination_at_sorted_index
ExportDone == (Export /\ pc = "done") =>
                 PrintT(ToJson([tag |-> "unrank", idx |-> idx0, n |-> n0, k |-> k0, out |-> out]))

(* ---------------- pure part used by the trace specs: the set of all triples ---------------- *)
AllTriples(m) == { UnrankF(x, m, 3) : x \in 0..Cf[m, 3] - 1 }
TriplesAreAllSubsets(m) ==
    /\ \A t \in AllTriples(m) : Descending(t) /\ InRange(t, m) /\ Len(t) = 3
    /\ \A a, b, c \in 0..m - 1 : a > b /\ b > c => <<a, b, c>> \in AllTriples(m)
=============================================================================
