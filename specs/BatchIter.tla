--------------------------------- MODULE BatchIter ---------------------------------
(* The minibatch iterator of the grid model (batchie/models/grid_helper.py, class BatchIterator), which drives every fitting
   and prediction loop of grid_combo.py.  Not behind one of the listed properties; specified because it is a small state machine
   with an arithmetic contract (how many steps, which rows in which step, when an epoch has just been completed) that the loops
   around it rely on.

   One action per method: Iter (__iter__), NextBatch (__next__ returning), Stop (__next__ raising StopIteration).  The parameters are
   chosen in Init so that one TLC run covers every combination within the bounds.

   Positions are 1-based indexes into the iterator's `ordering`; which row sits at a position is decided by the ordering, which is
   the identity without shuffling and a fresh permutation per epoch with it (Perm below is only constrained to be a permutation).   *)
EXTENDS Naturals, Sequences, FiniteSets, TLC

CONSTANTS MaxN, MaxBS, MaxEpochs, MaxMin, MaxMax, MaxIters
None == 999                                             \* "max_steps is None"

VARIABLES par,        \* [n, bs, epochs, mins, maxs]
          step, index, epoch,
          phase,      \* "new" (constructed) | "iterating" | "stopped"
          batch,      \* positions delivered by the last NextBatch
          got,        \* positions delivered since the last wrap (a sequence: order and multiplicity matter)
          wraps,      \* how often the index was wound back since construction
          iters       \* how often __iter__ was called (bounds the model; the code has no such bound)
vars == <<par, step, index, epoch, phase, batch, got, wraps, iters>>

Min(a, b) == IF a <= b THEN a ELSE b
Max(a, b) == IF a >= b THEN a ELSE b
CeilDiv(a, b) == (a + b - 1) \div b

Total(p) == LET a == p.epochs * CeilDiv(p.n, p.bs)
                b == Max(a, p.mins)
            IN IF p.maxs = None THEN b ELSE Min(b, p.maxs)

Range(lo, hi) == [k \in 1..(IF hi >= lo THEN hi - lo + 1 ELSE 0) |-> lo + k - 1]

Params == [n : 0..MaxN, bs : 1..MaxBS, epochs : 0..MaxEpochs, mins : 0..MaxMin, maxs : (0..MaxMax) \cup {None}]

Init == /\ par \in Params
        /\ step = 0 /\ index = 0 /\ epoch = 0 /\ phase = "new" /\ batch = <<>> /\ got = <<>> /\ wraps = 0 /\ iters = 0

\* __iter__: step and index start again; the epoch counter is NOT reset (it counts wraps over the life of the object)
Iter == /\ iters < MaxIters /\ iters' = iters + 1
        /\ phase' = "iterating"
        /\ step' = 0 /\ index' = 0 /\ got' = <<>> /\ batch' = <<>>
        /\ UNCHANGED <<par, epoch, wraps>>

NextBatch ==
    /\ phase = "iterating" /\ step < Total(par)
    /\ LET wrap == index >= par.n
           i0 == IF wrap THEN 0 ELSE index
           b == Range(i0 + 1, Min(i0 + par.bs, par.n))
       IN /\ epoch' = IF wrap THEN epoch + 1 ELSE epoch
          /\ wraps' = IF wrap THEN wraps + 1 ELSE wraps
          /\ batch' = b
          /\ got' = IF wrap THEN b ELSE got \o b
          /\ index' = i0 + par.bs
    /\ step' = step + 1
    /\ UNCHANGED <<par, phase, iters>>

Stop == /\ phase = "iterating" /\ step >= Total(par)
        /\ phase' = "stopped"
        /\ UNCHANGED <<par, step, index, epoch, batch, got, wraps, iters>>

Next == Iter \/ NextBatch \/ Stop
Spec == Init /\ [][Next]_vars /\ WF_vars(NextBatch) /\ WF_vars(Stop)

------------------------------------------------------------------------------------------------------------------------
JustPassedEpoch == index >= par.n                       \* just_passed_epoch()

TypeOK == /\ par \in Params /\ step \in Nat /\ index \in Nat /\ epoch \in Nat /\ phase \in {"new", "iterating", "stopped"}

\* the length announced by __len__ is the number of batches delivered before StopIteration
StepsWithinTotal == step <= Total(par)
StopOnlyAtTotal == phase = "stopped" => step = Total(par)

\* since the last wrap the rows were delivered in order, each once: got is the prefix 1..min(index, n) of the ordering
EpochIsAPrefix == phase # "new" => got = Range(1, Min(index, par.n))
\* hence "an epoch was just completed" is exactly "every row was delivered once since the last wrap"
JustPassedMeansComplete == phase # "new" /\ step > 0 => (JustPassedEpoch <=> got = Range(1, par.n))

\* every batch is full, except the last of an epoch, which holds the remainder; no batch is empty unless there are no rows at all
BatchSizes == step > 0 /\ phase # "new" =>
                 /\ Len(batch) <= par.bs
                 /\ (Len(batch) < par.bs => JustPassedEpoch)
                 /\ (par.n > 0 => Len(batch) > 0)

\* closed form: where the iterator is after `step` batches of a fresh pass (K batches per epoch)
ClosedForm == LET K == CeilDiv(par.n, par.bs) IN
              phase # "new" /\ step > 0 /\ par.n > 0 =>
                 /\ index = (((step - 1) % K) + 1) * par.bs
                 /\ got = Range(1, Min(index, par.n))

\* wraps are counted by the epoch counter, over the life of the object
EpochCountsWraps == epoch = wraps

\* liveness: every pass ends
PassEnds == (phase = "iterating") ~> (phase = "stopped" \/ step = 0)

\* -------- action properties --------
StepByOne == [][step' = step + 1 \/ step' = step \/ step' = 0]_vars
EpochMonotone == [][epoch' >= epoch]_vars
=============================================================================
