------------------------------- MODULE TrainSet -------------------------------
(* C04 (i).  What each shipped model is handed when it is trained on a partially observed screen       *)
(* through the train_model path (Screen.subset_observed, then add_observations).                        *)
(* A row is [s, t (two treatment ids, -1 = control), m (observed?), c (value class)].                    *)
(*   SparseDrugCombo:             every observed row once, in row order, y = logit(clip(float32(obs), 0.01, 0.99))  *)
(*   SparseDrugComboInteraction:  the observed rows without any control, y = logit(float32(obs)), plus the           *)
(*                                single-agent effect table of the observed rows                                    *)
(*   both refuse iff an OBSERVED value is negative or NaN; masked values are never read                             *)
(*   BayesianModel.add_observations called directly on data that still contains a masked row refuses               *)
EXTENDS Terms, SequencesExt, TLC, Json

CONSTANTS NRows, Classes, Export
VARIABLES rows, phase
vars == <<rows, phase>>
Shapes == {<<0, 1>>, <<0, -1>>, <<-1, 1>>, <<-1, -1>>, <<1, 1>>}
Init == rows \in [1..NRows -> [s : {0, 1}, t : Shapes, m : BOOLEAN, c : Classes]] /\ phase = 0
Next == phase = 0 /\ phase' = 1 /\ UNCHANGED rows

Obs == SelectSeq([r \in 1..NRows |-> r], LAMBDA r : rows[r].m)         \* observed row indexes, in row order
Bad(r) == rows[r].c \in {"neg", "nan"}
Refuse == \E x \in 1..Len(Obs) : Bad(Obs[x])
DirectRefuse == \E r \in 1..NRows : ~rows[r].m                          \* add_observations on the whole screen

YCombo(r) == F32(Logit(Clip(Rat(1, 100), Rat(99, 100), F32(Ref("obs", <<r - 1>>)))))
YInter(r) == F32(Logit(F32(Ref("obs", <<r - 1>>))))
ExpectedCombo == [x \in 1..Len(Obs) |-> [row |-> Obs[x] - 1, y |-> YCombo(Obs[x]), cl |-> rows[Obs[x]].s, dd1 |-> rows[Obs[x]].t[1], dd2 |-> rows[Obs[x]].t[2]]]
IsCombo(r) == rows[r].t[1] # -1 /\ rows[r].t[2] # -1
ObsCombo == SelectSeq(Obs, IsCombo)
ExpectedInter == [x \in 1..Len(ObsCombo) |-> [row |-> ObsCombo[x] - 1, y |-> YInter(ObsCombo[x]), cl |-> rows[ObsCombo[x]].s,
                                               dd1 |-> rows[ObsCombo[x]].t[1], dd2 |-> rows[ObsCombo[x]].t[2]]]
\* single-agent effect table over the observed rows only
IsSingle(r) == (rows[r].t[1] = -1) # (rows[r].t[2] = -1)
Active(r) == IF rows[r].t[1] # -1 THEN rows[r].t[1] ELSE rows[r].t[2]
ObsSet == {Obs[x] : x \in 1..Len(Obs)}
SRows(sm, tr) == SetToSortSeq({r \in ObsSet : IsSingle(r) /\ rows[r].s = sm /\ Active(r) = tr}, <)
SPresent == {rows[r].s : r \in ObsSet}
TPresent == UNION {{rows[r].t[1], rows[r].t[2]} : r \in ObsSet}
Table == {[s |-> sm, t |-> tr, v |-> IF tr = -1 THEN Num(1) ELSE Mean([x \in 1..Len(SRows(sm, tr)) |-> Ref("obs", <<SRows(sm, tr)[x] - 1>>)])] :
             <<sm, tr>> \in {p \in SPresent \X TPresent : p[2] = -1 \/ SRows(p[1], p[2]) # << >>}}

(* ---- clauses ---- *)
AllRefs == UNION ({Refs(ExpectedCombo[x].y) : x \in 1..Len(ExpectedCombo)} \cup {Refs(ExpectedInter[x].y) : x \in 1..Len(ExpectedInter)}
                  \cup {Refs(e.v) : e \in Table})
OnlyObserved == phase = 1 => \A rf \in AllRefs : rows[rf[2][1] + 1].m
ExactlyOnce == phase = 1 => /\ Len(ExpectedCombo) = Cardinality({r \in 1..NRows : rows[r].m})
                            /\ \A x, y \in 1..Len(ExpectedCombo) : x < y => ExpectedCombo[x].row < ExpectedCombo[y].row
ExportCase == (Export /\ phase = 1) =>
    PrintT(ToJson([tag |-> "train", rows |-> rows, refuse |-> Refuse, direct_refuse |-> DirectRefuse, n_observed |-> Len(Obs),
                   combo |-> ExpectedCombo, inter |-> ExpectedInter, table |-> Table]))
=============================================================================
