------------------------------ MODULE Encoding ------------------------------
(* C01.  The id encoders of batchie.data transcribed over tokens.                                   *)
(*  - a name token is the rank of the string in code-point order (what pandas sort_values and       *)
(*    np.unique use); a dose token is a natural that preserves the order of the floats, the token    *)
(*    Zero standing for 0.0 / -0.0 (tokens below Zero: negative doses);  ctl is the token of the     *)
(*    control name (a token outside Names: no experiment uses the control name).                     *)
(*  - Stack:   Screen.__init__ concatenates column 0, column 1, ... before encoding and splits after *)
(*  - Uniq:    drop_duplicates + sort_values(by=[name, dose])                                        *)
(*  - NewIdx:  index - cumsum(is_control), controls overwritten with -1                              *)
(*  - Lookup:  left merge on (name, dose); a miss raises ("failed")                                  *)
(*  - Valid:   numpy_array_is_0_indexed_integers on a supplied mapping's id column                   *)
EXTENDS EncodingOps, TLC, Json

CONSTANTS Names, Doses,      \* token alphabets of the exhaustive model (Zero, the dose token of 0.0, is EncodingOps')
          Arity, NRows,
          Ctls,              \* control-name tokens explored (may contain a token outside Names = absent)
          Mode,              \* "treat": treatment encoder;  "oned": the 1-d encoder (samples, plates)
          WithSub,           \* also explore re-encoding of every sub-sequence of rows with the produced mapping
          Export

VARIABLES rows,   \* Seq of rows; a row is a Seq(Arity) of <<name, dose>>   (Mode = "oned": Seq of names)
          ctl,
          sub,    \* << >> or a strictly increasing sequence of row indices re-encoded with the mapping of `rows`
          drop,   \* 0, or an index of the mapping that is withheld from the supplied mapping (rejection paths)
          phase,  \* 0: inputs chosen; 1: encodings computed (one Compute step, so that TLC's workers share the work)
          full, subres
vars == <<rows, ctl, sub, drop, phase, full, subres>>

(* ---------------- state space: every input of the small scope ---------------- *)
Row == IF Mode = "treat" THEN [1..Arity -> Names \X Doses] ELSE Names
IncSeqs(nr) == { s \in UNION {[1..m -> 1..nr] : m \in 1..nr} : \A x \in 1..Len(s) - 1 : s[x] < s[x + 1] }

None == [status |-> "none", mapping |-> << >>, ids |-> << >>]

Init == /\ rows \in [1..NRows -> Row]
        /\ ctl \in Ctls
        /\ sub \in (IF WithSub THEN {<< >>} \cup IncSeqs(NRows) ELSE {<< >>})
        /\ drop \in (IF WithSub THEN 0..2 ELSE {0})
        /\ (sub = << >> => drop = 0)
        /\ phase = 0 /\ full = None /\ subres = None

Full == IF Mode = "treat" THEN EncodeTreat(rows, Arity, ctl) ELSE Encode1(rows)
SubRows == [x \in 1..Len(sub) |-> rows[sub[x]]]
\* the supplied mapping: the full one, or with entry `drop` withheld (not covering / not dense any more)
SuppliedOf(mp) == IF drop = 0 \/ drop > Len(mp) THEN mp
                  ELSE [y \in 1..Len(mp) - 1 |-> mp[IF y < drop THEN y ELSE y + 1]]
SubOf(mp) == IF Mode = "treat" THEN EncodeTreatWith(SubRows, Arity, SuppliedOf(mp)) ELSE Encode1With(SubRows, SuppliedOf(mp))

Compute == /\ phase = 0 /\ phase' = 1
           /\ full' = Full
           /\ subres' = IF sub = << >> THEN None ELSE SubOf(Full.mapping)
           /\ UNCHANGED <<rows, ctl, sub, drop>>
Next == Compute
Supplied == SuppliedOf(full.mapping)

(* ---------------- the clauses of C01 as invariants of the specification ---------------- *)
Cells == {<<r, a>> : r \in 1..NRows, a \in 1..Arity}
TDecode == (phase = 1 /\ Mode = "treat") =>
    \A c \in Cells : \E y \in 1..Len(full.mapping) :
        full.mapping[y] = <<rows[c[1]][c[2]][1], rows[c[1]][c[2]][2], full.ids[c[1]][c[2]]>>
TCtlIff == (phase = 1 /\ Mode = "treat") =>
    \A c \in Cells : (full.ids[c[1]][c[2]] = -1) <=> IsCtl(rows[c[1]][c[2]], ctl)
TDense == (phase = 1 /\ Mode = "treat") =>
    LET S == {full.ids[c[1]][c[2]] : c \in Cells} \ {-1} IN S = 0..Cardinality(S) - 1
TEqualIff == (phase = 1 /\ Mode = "treat") =>
    \A c, d \in Cells : (full.ids[c[1]][c[2]] # -1 /\ full.ids[d[1]][d[2]] # -1) =>
        ((full.ids[c[1]][c[2]] = full.ids[d[1]][d[2]]) <=> (rows[c[1]][c[2]] = rows[d[1]][d[2]]))
TUniqueRowPerId == (phase = 1 /\ Mode = "treat") =>
    \A y, z \in 1..Len(full.mapping) : (full.mapping[y][3] = full.mapping[z][3] /\ full.mapping[y][3] # -1) => y = z
TSpace == (phase = 1 /\ Mode = "treat") => \A c \in Cells : full.ids[c[1]][c[2]] < NUniqueTreatments(full.mapping)
ODense == (phase = 1 /\ Mode = "oned") => LET S == {full.ids[x] : x \in 1..NRows} IN S = 0..Cardinality(S) - 1
OEqualIff == (phase = 1 /\ Mode = "oned") => \A x, y \in 1..NRows : (full.ids[x] = full.ids[y]) <=> (rows[x] = rows[y])
OSpace == (phase = 1 /\ Mode = "oned") => \A x \in 1..NRows : full.ids[x] < NUniqueSamples(full.mapping)
\* a supplied mapping is followed verbatim: the ids of the surviving rows are the ids they had, the mapping is returned
\* unchanged, and the sizes derived from it still bound every id
Verbatim == (phase = 1 /\ sub # << >> /\ subres.status = "ok") =>
    /\ subres.mapping = Supplied
    /\ \A x \in 1..Len(sub) : subres.ids[x] = full.ids[sub[x]]
    /\ ((phase = 1 /\ Mode = "treat") => \A x \in 1..Len(sub), a \in 1..Arity : subres.ids[x][a] < NUniqueTreatments(subres.mapping))
RejectedOnlyWhenBroken == (phase = 1 /\ sub # << >> /\ subres.status # "ok") => drop # 0

ExportCase == (Export /\ phase = 1) =>
    PrintT(ToJson([tag |-> "enc", mode |-> Mode, arity |-> Arity, rows |-> rows, ctl |-> ctl, sub |-> sub, drop |-> drop,
                   full |-> full,
                   nut |-> IF Mode = "treat" THEN NUniqueTreatments(full.mapping) ELSE NUniqueSamples(full.mapping),
                   subres |-> subres]))
=============================================================================
