-------------------------- MODULE TraceOrchestrator --------------------------
(* C19, code -> spec.  A trace is the event log of the REAL nextflow/scripts/batchie.py run in-process  *)
(* against a temporary output tree, with subprocess.check_call replaced by a model pipeline (publishes  *)
(* its files one at a time, in a DAG-consistent order) and os.mkdir / os.rmdir / os.unlink counted so    *)
(* that a crash is injected at a chosen mutation; reruns and operator removals follow until the run      *)
(* ends.  Every event is replayed through the corresponding action of Orchestrator with its logged       *)
(* arguments, and the invariants / action properties of C19 are evaluated in every state.                *)
EXTENDS Orchestrator, TraceLib

CONSTANT Strict   \* TRUE: every event must be the step the Orchestrator module takes (conformance of the script's control flow);
                  \* FALSE: only the filesystem, the pipeline and the ghosts are replayed - whatever the script decided - and the
                  \*        clauses of C19 are evaluated on what actually happened (the verdict on the property)
VARIABLES tid, l
T == Traces[tid]
Ev == T.events[l]
SetOf(q) == {q[x] : x \in 1..Len(q)}
Adv == l' = l + 1 /\ UNCHANGED tid
Is(e) == l <= Len(T.events) /\ Ev.ev = e

TInit == tid \in 1..Len(Traces) /\ l = 1 /\ Init

CmdOf(c) ==
    CASE c.wf = "initial" -> [wf |-> "initial", screen |-> c.screen]
      [] c.wf = "pfirst" -> [wf |-> "pfirst", screen |-> c.screen]
      [] c.wf = "first" -> [wf |-> "first", train |-> c.train, test |-> c.test]
      [] c.wf = "next" -> [wf |-> "next", screen |-> c.screen, thetas |-> c.thetas, dist |-> c.dist, excl |-> SetOf(c.excl)]

\* steps of the script that leave no trace in the filesystem log
SilentPending == \/ (pc = "rm" /\ torm = {} /\ <<ni, nj>> \notin pdirs)
                 \/ (pc = "mkiter" /\ ni \in idirs)
TSilent == SilentPending /\ (RmDir \/ MkIter) /\ UNCHANGED <<tid, l>>

TStart == Is("start") /\ Check(tid, l, "start-enabled", pc = "idle") /\ Start /\ Adv
TScan == /\ Is("scan") /\ Scan
         /\ IF Ev.raised
            THEN Check(tid, l, "scan-names-the-directory-the-spec-names", named' = Ev.dir)
            ELSE /\ Check(tid, l, "scan-does-not-raise-in-spec", named' = NoStep /\ pc' = "decide")
                 /\ Check(tid, l, "scan-next-step", ni' = Ev.i /\ nj' = Ev.j)
         /\ Adv
TDecide == /\ Is("decide") /\ ~SilentPending /\ Check(tid, l, "decide-here", pc = "decide") /\ Decide
           /\ Check(tid, l, "continues", pc' = "rm")
           /\ Check(tid, l, "excludes-read", {x.s : x \in excl'} = SetOf(Ev.excl_steps))
           /\ Adv
TExit == /\ Is("exit") /\ ~SilentPending
         /\ IF pc = "decide" THEN Decide /\ Check(tid, l, "exit-only-when-nothing-remains", pc' = "idle")
            ELSE /\ Check(tid, l, "exit-after-last-plate-of-batch", pc = "idle" /\ ~died) /\ UNCHANGED vars
         /\ Adv
TRm == Is("rm") /\ ~SilentPending /\ Check(tid, l, "unlink-expected", pc = "rm" /\ Ev.k \in torm) /\ RmEntryK(Ev.k) /\ Adv
TRmDir == Is("rmdir") /\ Check(tid, l, "rmdir-expected", pc = "rm" /\ torm = {} /\ <<ni, nj>> \in pdirs) /\ RmDir /\ Adv
TMkIter == Is("mkiter") /\ ~SilentPending /\ Check(tid, l, "mkdir-iter-expected", pc = "mkiter" /\ ni = Ev.i /\ ni \notin idirs) /\ MkIter /\ Adv
TMkPlate == Is("mkplate") /\ ~SilentPending /\ Check(tid, l, "mkdir-plate-expected", pc = "mkplate" /\ <<ni, nj>> = Ev.s) /\ MkPlate /\ Adv
TLaunch == /\ Is("launch") /\ Check(tid, l, "launch-expected", pc = "launch") /\ Launch
           /\ Check(tid, l, "spec-launches-too", pc' = "pipeline")
           /\ Check(tid, l, "launched-step", <<ni, nj>> = Ev.s)
           /\ Check(tid, l, "launched-command-and-inputs", cmd' = CmdOf(Ev.c))
           /\ Check(tid, l, "C19:completed-step-never-executed-twice", <<ni, nj>> \notin completed)
           /\ Check(tid, l, "C19:no-step-skipped", \A s \in Steps : StepNo(s) < StepNo(<<ni, nj>>) => s \in completed)
           /\ Adv
TDied == /\ Is("died") /\ ~SilentPending
         /\ IF pc = "launch" THEN Launch /\ Check(tid, l, "script-gives-up-only-where-spec-does", died')
            ELSE Check(tid, l, "script-raised-unexpectedly:" \o Ev.msg, FALSE) /\ UNCHANGED vars
         /\ Adv
TPublish == Is("publish") /\ Check(tid, l, "publish-allowed-by-dag", pc = "pipeline" /\ Ev.k \in Outputs(cmd.wf) \ pub) /\ Publish(Ev.k) /\ Adv
TPipelineDone == Is("pipeline_done") /\ Check(tid, l, "pipeline-complete", pc = "pipeline" /\ pub = Outputs(cmd.wf)) /\ PipelineDone /\ Adv
TCrash == Is("crash") /\ ~SilentPending /\ Check(tid, l, "crash-while-running", pc # "idle") /\ Crash /\ Adv
TOperator == Is("operator_remove") /\ Check(tid, l, "operator-removes-named-dir", named = Ev.dir) /\ OperatorRemove /\ Adv
TEnd == /\ Is("end")
        /\ Check(tid, l, "run-finished", Finished)
        /\ Check(tid, l, "final-tree-is-the-uninterrupted-tree", \A s \in completed : \A k \in Outputs(Ref(s).wf) : files[s][k].good)
        /\ Check(tid, l, "final-tree-equals-reference-tree", Ev.tree_equal)
        /\ Adv /\ UNCHANGED vars

TDone == l = Len(T.events) + 1 /\ Accept(tid) /\ UNCHANGED <<vars, tid, l>>
(* ---- liberal replay: the script's decisions are taken as observed ---- *)
LKeep == UNCHANGED <<lastMeta, curScreen, excl, torm, named, crashes, runs>>
LNop == l <= Len(T.events) /\ Ev.ev \in {"scan", "decide", "exit"} /\ UNCHANGED vars /\ Adv
LStart == Is("start") /\ pc' = "run" /\ UNCHANGED <<idirs, pdirs, files, ni, nj, cmd, pub, Ghosts>> /\ LKeep /\ Adv
LRm == /\ Is("rm") /\ files' = [files EXCEPT ![<<Ev.s[1], Ev.s[2]>>][Ev.k] = None]
       /\ UNCHANGED <<idirs, pdirs, pc, ni, nj, cmd, pub, Ghosts>> /\ LKeep /\ Adv
LRmDir == /\ Is("rmdir") /\ pdirs' = pdirs \ {<<Ev.s[1], Ev.s[2]>>}
          /\ UNCHANGED <<idirs, files, pc, ni, nj, cmd, pub, Ghosts>> /\ LKeep /\ Adv
LMkIter == Is("mkiter") /\ idirs' = idirs \cup {Ev.i} /\ UNCHANGED <<pdirs, files, pc, ni, nj, cmd, pub, Ghosts>> /\ LKeep /\ Adv
LMkPlate == Is("mkplate") /\ pdirs' = pdirs \cup {<<Ev.s[1], Ev.s[2]>>} /\ UNCHANGED <<idirs, files, pc, ni, nj, cmd, pub, Ghosts>> /\ LKeep /\ Adv
LLaunch == /\ Is("launch")
           /\ ni' = Ev.s[1] /\ nj' = Ev.s[2] /\ cmd' = CmdOf(Ev.c) /\ pub' = {} /\ pc' = "pipeline"
           /\ launched' = Append(launched, [s |-> <<Ev.s[1], Ev.s[2]>>, c |-> CmdOf(Ev.c)])
           /\ Check(tid, l, "C19:completed-step-never-executed-twice", <<Ev.s[1], Ev.s[2]>> \notin completed)
           /\ Check(tid, l, "C19:no-step-skipped", \A s \in Steps : StepNo(s) < StepNo(<<Ev.s[1], Ev.s[2]>>) => s \in completed)
           /\ UNCHANGED <<idirs, pdirs, files, completed, died>> /\ LKeep /\ Adv
LPublish == Is("publish") /\ Check(tid, l, "publish-allowed-by-dag", pc = "pipeline" /\ Ev.k \in Outputs(cmd.wf) \ pub) /\ Publish(Ev.k) /\ Adv
LPipelineDone == Is("pipeline_done") /\ pc' = "run" /\ UNCHANGED <<idirs, pdirs, files, ni, nj, cmd, pub, Ghosts>> /\ LKeep /\ Adv
LCrash == Is("crash") /\ pc' = "idle" /\ UNCHANGED <<idirs, pdirs, files, ni, nj, cmd, pub, Ghosts>> /\ LKeep /\ Adv
\* (plate 99: the script named a whole iteration directory and the operator removed it with everything inside)
LOperator == /\ Is("operator_remove")
             /\ IF Ev.dir[2] = 99
                THEN /\ pdirs' = {p \in pdirs : p[1] # Ev.dir[1]} /\ idirs' = idirs \ {Ev.dir[1]}
                     /\ files' = [s \in DOMAIN files |-> IF s[1] = Ev.dir[1] THEN NoFiles ELSE files[s]]
                ELSE /\ pdirs' = pdirs \ {<<Ev.dir[1], Ev.dir[2]>>} /\ files' = [files EXCEPT ![<<Ev.dir[1], Ev.dir[2]>>] = NoFiles]
                     /\ UNCHANGED idirs
             /\ UNCHANGED <<pc, ni, nj, cmd, pub, Ghosts>> /\ LKeep /\ Adv
LDied == Is("died") /\ died' = TRUE /\ UNCHANGED <<idirs, pdirs, files, pc, ni, nj, cmd, pub, completed, launched>> /\ LKeep /\ Adv
LEnd == /\ Is("end")
        /\ Check(tid, l, "C19:run-finished-with-every-step-of-the-uninterrupted-run",
                 IF Mode = "retrospective" THEN \E s \in completed : URef(s) <= 0 ELSE \A i \in 0..MaxIter - 1 : <<i, B - 1>> \in completed)
        /\ Check(tid, l, "C19:final-tree-is-the-uninterrupted-tree", \A s \in completed : \A k \in Outputs(Ref(s).wf) : files[s][k].good)
        /\ Check(tid, l, "C19:final-tree-equals-reference-tree", Ev.tree_equal)
        /\ Adv /\ UNCHANGED vars
LNext == LNop \/ LStart \/ LRm \/ LRmDir \/ LMkIter \/ LMkPlate \/ LLaunch \/ LPublish \/ LPipelineDone \/ LCrash \/ LOperator
         \/ LDied \/ LEnd \/ TDone

SNext == TSilent \/ TStart \/ TScan \/ TDecide \/ TExit \/ TRm \/ TRmDir \/ TMkIter \/ TMkPlate \/ TLaunch \/ TDied
         \/ TPublish \/ TPipelineDone \/ TCrash \/ TOperator \/ TEnd \/ TDone
TNext == IF Strict THEN SNext ELSE LNext

\* C19 on every state of every real execution (used as a CONSTRAINT, so that a violated clause is reported by name and the
\* trace is cut there instead of TLC stopping at an invariant error)
C19Clauses == /\ Check(tid, l, "C19:no-completed-step-deleted", NoCompletedDeleted)
              /\ Check(tid, l, "C19:same-inputs-as-uninterrupted-run", SameAsCrashFree)
              /\ Check(tid, l, "C19:never-gives-up-without-naming-a-directory", NeverDies)
=============================================================================
