--------------------------------- MODULE GridLookup ---------------------------------
(* The concentration look-up of the grid model (batchie/models/grid_helper.py, ConcentrationGrid.lookup_conc): where a log-concentration
   falls in a drug's grid and with which weight it is interpolated between the two neighbouring grid points.  Not behind one of the
   listed properties; specified because it is a pure function whose case analysis (on a grid point, between two, below the grid, above it)
   decides which latent grid cells every observation of the grid model touches.

   Numbers: grid points and concentrations live on the integer lattice (the harness divides by two, so halves occur); the interpolation
   weight is an exact rational <<num, den>>.  Lookup is a transcription of the code (searchsorted-left, clip, gather, divide, clip); the
   operators below it state what the model relies on; TLC checks them on every strictly increasing grid of 2..4 points over 0..MaxG and
   every concentration in -2..MaxG+2, and exports each case for replay into the real function.  Indexes are 0-based as in the code.        *)
EXTENDS Integers, Sequences, FiniteSets, TLC, Json

CONSTANTS MaxG, Export
Grids == {g \in UNION {[1..n -> 0..MaxG] : n \in 2..4} : \A i \in 1..(Len(g) - 1) : g[i] < g[i + 1]}
Xs == (0 - 2)..(MaxG + 2)

CountBelow(g, x) == Cardinality({i \in 1..Len(g) : g[i] < x})          \* torch.searchsorted (left)
Lookup(g, x) ==
    LET ub == CountBelow(g, x)                                       \* clip(.., 0, n) changes nothing: it is in 0..n already
        lb == IF ub = 0 THEN 0 ELSE ub - 1
    IN IF ub = Len(g) THEN [refused |-> TRUE, ub |-> ub, num |-> 0, den |-> 1]     \* gather with index n: out of range, the call raises
       ELSE LET u == g[ub + 1]
                w == g[lb + 1]
            IN IF u = w THEN [refused |-> FALSE, ub |-> ub, num |-> 1, den |-> 1]
               ELSE LET num == x - w
                        den == u - w
                    IN [refused |-> FALSE, ub |-> ub,                           \* clip to [0, 1]
                        num |-> IF num < 0 THEN 0 ELSE IF num > den THEN den ELSE num, den |-> den]

VARIABLES g, x, phase
vars == <<g, x, phase>>
Init == g \in Grids /\ x \in Xs /\ phase = 0
Done == phase = 0 /\ phase' = 1 /\ UNCHANGED <<g, x>>
Next == Done
Spec == Init /\ [][Next]_vars
------------------------------------------------------------------------------------------------------------------------
L == Lookup(g, x)
n == Len(g)
InRange == g[1] <= x /\ x <= g[n]
Lb == IF L.ub = 0 THEN 0 ELSE L.ub - 1

\* inside the grid the look-up always answers, the two neighbours bracket the concentration and the weight reproduces it exactly
BracketsInRange == InRange => /\ ~L.refused
                              /\ g[Lb + 1] <= x /\ x <= g[L.ub + 1]
                              /\ L.num * g[L.ub + 1] + (L.den - L.num) * g[Lb + 1] = L.den * x
WeightIsAProportion == ~L.refused => (0 <= L.num /\ L.num <= L.den /\ L.den > 0)
\* a concentration that is a grid point is that grid point alone (weight one on it)
OnAGridPoint == \A k \in 1..n : x = g[k] => (~L.refused /\ L.ub = k - 1 /\ L.num = L.den)
\* strictly between two neighbours both get positive weight
StrictlyBetween == (~L.refused /\ L.ub > 0 /\ g[L.ub] < x /\ x < g[L.ub + 1]) => (0 < L.num /\ L.num < L.den)
\* below the grid the lowest grid point answers alone (clamped, no extrapolation)
BelowIsClamped == x < g[1] => (~L.refused /\ L.ub = 0 /\ L.num = L.den)
\* above the grid there is no answer (the code raises); the padding added by init_from_range is what keeps real doses away from here
AboveIsRefused == (x > g[n]) <=> L.refused
\* the upper neighbour never decreases with the concentration
MonotoneUb == \A y \in Xs : (y <= x /\ ~L.refused) => Lookup(g, y).ub <= L.ub

Exp == (Export /\ phase = 0) => PrintT(ToJson([tag |-> "lookup", g |-> g, x |-> x + 2, out |-> L]))     \* (x shifted: JSON ints stay non-negative)
=============================================================================
