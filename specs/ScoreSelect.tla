----------------------------- MODULE ScoreSelect -----------------------------
(* C06.  Chunked scoring and selection.  Configuration (chosen in Init): which plates are observed,    *)
(* the batch of already selected plate ids, the chunk count, the score every candidate receives.       *)
(*   Cand       unobserved plates not in the batch, sorted by id                                        *)
(*   ChunkOf    np.array_split arithmetic: the first (|Cand| mod n) chunks are one larger; empty chunks *)
(*   CondRows   rows a candidate is scored on: its own plus the batch plates', one per condition class  *)
(*   Combine    chunk holders concatenated in any order                                                 *)
(*   Select     the plate returned must be allowed and have no allowed plate strictly below it          *)
(* The fixture ($FIXTURE_FILE) gives rows -> plate and rows -> condition class.                          *)
EXTENDS Naturals, Integers, Sequences, FiniteSets, SequencesExt, TLC, Json, IOUtils

CONSTANTS MaxChunks, ScoreLevels, Export
Fix == JsonDeserialize(IOEnv.FIXTURE_FILE)
NR == Len(Fix.plate_of)
Plates == {Fix.plate_of[r] : r \in 1..NR}
RowsOf(p) == {r \in 1..NR : Fix.plate_of[r] = p}

VARIABLES observed, batch, nchunks, score,   \* configuration
          phase, order, holder, allowed, best
vars == <<observed, batch, nchunks, score, phase, order, holder, allowed, best>>

Asc(S) == SetToSortSeq(S, <)
CandOf(obs, bt) == Asc({p \in Plates : p \notin obs /\ p \notin bt})
Cand == CandOf(observed, batch)
\* np.array_split(seq, n)[i]
SplitStart(len, n, i) == LET q == len \div n  r == len % n IN IF i < r THEN i * (q + 1) ELSE r * (q + 1) + (i - r) * q
SplitLen(len, n, i) == LET q == len \div n  r == len % n IN IF i < r THEN q + 1 ELSE q
ChunkOf(cs, n, i) == SubSeq(cs, SplitStart(Len(cs), n, i) + 1, SplitStart(Len(cs), n, i) + SplitLen(Len(cs), n, i))
\* rows handed to the scorer for candidate p
Union(p, bt) == RowsOf(p) \cup UNION {RowsOf(b) : b \in bt}
CondChoices(p, bt) == IF bt = {} THEN {RowsOf(p)}
                      ELSE {s \in SUBSET Union(p, bt) :
                              /\ \A x \in Union(p, bt) : \E y \in s : Fix.klass[y] = Fix.klass[x]
                              /\ \A x, y \in s : Fix.klass[x] = Fix.klass[y] => x = y}

Init == /\ observed \in SUBSET Plates /\ batch \in SUBSET Plates /\ nchunks \in 1..MaxChunks
        /\ score \in [{p \in Plates : p \notin observed /\ p \notin batch} -> ScoreLevels]
        /\ phase = 0 /\ order = << >> /\ holder = << >> /\ allowed = {} /\ best = {}

Perms(n) == {q \in [1..n -> 0..n - 1] : \A a, b \in 1..n : a # b => q[a] # q[b]}
RECURSIVE Cat(_, _)
Cat(ord, x) == IF x > Len(ord) THEN << >>
               ELSE [y \in 1..Len(ChunkOf(Cand, nchunks, ord[x])) |-> <<ChunkOf(Cand, nchunks, ord[x])[y], score[ChunkOf(Cand, nchunks, ord[x])[y]]>>]
                    \o Cat(ord, x + 1)
\* chunk results saved, loaded and concatenated in the order `ord`
Combine(ord) == /\ phase = 0 /\ ord \in Perms(nchunks)
                /\ order' = ord /\ holder' = Cat(ord, 1) /\ phase' = 1
                /\ UNCHANGED <<observed, batch, nchunks, score, allowed, best>>
\* the policy (or its absence) allows `al`; any allowed plate with no strictly lower allowed plate may be returned
Select(al) == /\ phase = 1 /\ al \in SUBSET {Cand[x] : x \in 1..Len(Cand)}
              /\ allowed' = al
              /\ best' = {p \in al : \A q \in al : score[p] <= score[q]}
              /\ phase' = 2
              /\ UNCHANGED <<observed, batch, nchunks, score, order, holder>>
CombineAny == \E ord \in Perms(nchunks) : Combine(ord)
SelectAny == \E al \in SUBSET Plates : Select(al)
Next == CombineAny \/ SelectAny

(* ---- C06 ---- *)
ExactlyOnce == LET all == [i \in 0..nchunks - 1 |-> ChunkOf(Cand, nchunks, i)] IN
    /\ \A p \in {Cand[x] : x \in 1..Len(Cand)} :
           Cardinality({<<i, y>> \in (0..nchunks - 1) \X (1..Len(Cand)) : y <= Len(all[i]) /\ all[i][y] = p}) = 1
    /\ \A i \in 0..nchunks - 1 : \A y \in 1..Len(all[i]) : all[i][y] \notin observed /\ all[i][y] \notin batch
HolderComplete == phase >= 1 => {holder[x][1] : x \in 1..Len(holder)} = {Cand[x] : x \in 1..Len(Cand)} /\ Len(holder) = Len(Cand)
SelectedOk == phase = 2 => /\ best \subseteq allowed
                           /\ (best = {} <=> allowed = {})
                           /\ \A p \in best : p \notin observed /\ p \notin batch /\ \A q \in allowed : score[q] >= score[p]

ExportCase == (Export /\ phase = 2) =>
    PrintT(ToJson([tag |-> "sel", observed |-> observed, batch |-> batch, nchunks |-> nchunks,
                   cand |-> Cand, scores |-> [x \in 1..Len(Cand) |-> score[Cand[x]]],
                   chunks |-> [i \in 1..nchunks |-> ChunkOf(Cand, nchunks, i - 1)],
                   order |-> order, holder |-> holder, allowed |-> allowed, best |-> best]))
=============================================================================
