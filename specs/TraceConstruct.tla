---------------------------- MODULE TraceConstruct ----------------------------
(* C12 constructor / set_observed clauses, code -> spec, on larger random inputs. *)
EXTENDS Construct, TraceLib
VARIABLE tid
T == Traces[tid]
TInit == tid \in 1..Len(Traces) /\ plate = << >> /\ maskin = << >> /\ mode = "mask" /\ sel = {} /\ phase = 0
TNext == UNCHANGED <<vars, tid>>
Ok == LET b == Built(T.plate, T.maskin, T.mode)
          sl == {T.sel[x] : x \in 1..Len(T.sel)} IN
      /\ Check(tid, 1, "rejected-iff-mixed-plate", T.got.ok = b.ok)
      /\ (b.ok => /\ Check(tid, 1, "mask-after-construction", T.got.mask = b.mask)
                  /\ Check(tid, 1, "values-after-construction", T.got.val = b.val)
                  /\ Check(tid, 2, "mask-after-set_observed", T.got.mask2 = AfterSet(b, sl).mask)
                  /\ Check(tid, 2, "values-after-set_observed", T.got.val2 = AfterSet(b, sl).val))
Decide == Verdict(tid, Ok)
=============================================================================
