------------------------------ MODULE TraceRetro ------------------------------
(* C11 / C13, code -> spec.  One trace = one call of a real generator / smoother / filter / hold-out   *)
(* on a real screen: the projected input, the parameters, the projected output.  Focus selects the      *)
(* clauses: "C11" conservation / pass-through / partition, "C13" the shape guarantees.                  *)
EXTENDS Retro, TraceLib
CONSTANT Focus
VARIABLE tid
T == Traces[tid]
TInit == tid \in 1..Len(Traces) /\ in = << >> /\ op = "seg" /\ param = 1 /\ out = << >> /\ phase = 0
TNext == UNCHANGED <<vars, tid>>

IsGen == T.op \in {"seg", "pair", "perm"}
IsSmooth == T.op \in {"mergemin", "mergetb", "fixed", "optimal", "npl", "ensemble"}
C11Ok ==
    /\ (IsGen => /\ Check(tid, 1, "generator-keeps-every-experiment-unaltered", GenKeepsAll(T.inp, T.out))
                 /\ Check(tid, 1, "observed-part-passes-through", ObservedPassThrough(T.inp, T.out)))
    /\ (IsSmooth => /\ Check(tid, 1, "smoother-keeps-a-sub-collection-unaltered", SmoothKeepsSub(T.inp, T.out))
                    /\ Check(tid, 1, "observed-part-passes-through", ObservedPassThrough(T.inp, T.out)))
    /\ (T.op = "cover" => Check(tid, 1, "initial-plate-keeps-every-experiment", GenKeepsAll(T.inp, T.out)))
    /\ (T.op = "holdout" => Check(tid, 1, "holdout-partitions-with-ceil-counts", HoldoutOk(T.inp, T.fn, T.fd, T.out, T.test)))
    /\ (T.op = "random_holdout" =>
          /\ Check(tid, 1, "random-holdout-partitions", /\ NoDuplicates(T.out) /\ NoDuplicates(T.test) /\ Ids(T.out) \cap Ids(T.test) = {}
                                                        /\ Ids(T.out) \cup Ids(T.test) = Ids(T.inp)
                                                        /\ SameExperiment(T.inp, T.out) /\ SameExperiment(T.inp, T.test))
          /\ Check(tid, 1, "random-holdout-count", Len(T.test) = CeilDiv(Len(T.inp) * T.fn, T.fd))
          /\ Check(tid, 1, "random-holdout-masks", /\ \A y \in 1..Len(T.test) : T.test[y].obs
                                                    /\ \A z \in 1..Len(T.out) : T.out[z].obs = ById(T.inp, T.out[z].id).obs))

\* every sample gets ceil(count / max) plates with np.array_split sizes
SegExact(i0, o0, max) ==
    \A s \in SamplesOf(i0, Unobs(i0)) :
        LET c == Cardinality({x \in Unobs(i0) : i0[x].s = s})
            n == CeilDiv(c, max)
            ps == UPlatesOfSample(o0, s) IN
        /\ Cardinality(ps) = n
        /\ \A k \in 0..1 : (k = 0 \/ c % n # 0) =>
               Cardinality({p \in ps : Cardinality(URows(o0, p)) = (c \div n) + k}) = (IF k = 1 THEN (c % n) ELSE n - (c % n))
C13Ok ==
    /\ (T.op = "seg" => /\ Check(tid, 1, "generated-plates-hold-one-sample", OneSamplePerUPlate(T.out))
                        /\ Check(tid, 1, "generated-plates-at-most-max", AtMostMax(T.out, T.p1))
                        /\ Check(tid, 1, "ceil-count-over-max-plates-per-sample", SegExact(T.inp, T.out, T.p1)))
    /\ (T.op = "pair" => Check(tid, 1, "generated-plates-hold-one-sample", OneSamplePerUPlate(T.out)))
    /\ (T.op = "cover" => /\ Check(tid, 1, "cover-observes-every-sample-and-treatment-rest-in-one-plate", CoverOk(T.inp, T.out))
                          /\ (T.p1 = 1 => Check(tid, 1, "cover-reveals-single-agent-experiments", CoverSingles(T.out))))
    /\ (T.op = "combofilter" => Check(tid, 1, "combination-filter-exact", ComboFilterOk(T.inp, T.out)))
    /\ (T.op = "fixed" => Check(tid, 1, "fixed-size-common-size", FixedSizeOk(T.inp, T.p1, T.out)))
    /\ (T.op = "optimal" => Check(tid, 1, "optimal-size-retains-most", OptimalSizeOk(T.inp, T.out)))
    /\ (T.op = "npl" => /\ Check(tid, 1, "no-sample-below-minimum", NoStarvedSample(T.out, T.p1))
                        /\ Check(tid, 1, "qualifying-samples-kept", KeepsQualifying(T.inp, T.out, T.p1)))
    /\ (T.op = "ensemble" => /\ Check(tid, 1, "ensemble-common-size", CommonSize(T.out))
                             /\ Check(tid, 1, "ensemble-no-sample-below-minimum", NoStarvedSample(T.out, T.p3)))
    /\ (T.op = "mergemin" => /\ Check(tid, 1, "merge-only-same-sample-whole-plates", MergeSameSample(T.inp, T.out))
                             /\ Check(tid, 1, "min-merge-stops-exactly", MinMergeStopsExactly(T.inp, T.out, T.p1)))
    /\ (T.op = "mergetb" => /\ Check(tid, 1, "merge-only-same-sample-whole-plates", MergeSameSample(T.inp, T.out))
                            /\ Check(tid, 1, "top-bottom-halves-rounding-up", TBHalves(T.inp, T.out, T.p1)))
Decide == Verdict(tid, IF Focus = "C11" THEN C11Ok ELSE C13Ok)
=============================================================================
