----------------------------- MODULE ChunkArith -----------------------------
(* Unbounded check (Apalache, SMT over the integers) of the two chunk arithmetics of batchie:           *)
(*  (1) get_lower_triangular_indices_chunk: Start / End with the remainder spread over the first chunks  *)
(*      (DistChunks.tla, C07)                                                                             *)
(*  (2) numpy.array_split as used by score_chunk: SplitStart / SplitLen (ScoreSelect.tla, C06)            *)
(* For ALL totals >= 0, chunk counts k >= 1 and chunk indexes c, d < k: chunks are contiguous, start at   *)
(* 0, end at the total, have non-negative sizes that differ by at most one (larger ones first).            *)
(* TLC checks the same operators on bounded scopes together with their binding to the code; this module    *)
(* removes the bound on the arithmetic itself.  Run: apalache-mc check --inv=Inv --length=0 ChunkArith.tla *)
EXTENDS Integers

VARIABLES
    \* @type: Int;
    total,
    \* @type: Int;
    k,
    \* @type: Int;
    c,
    \* @type: Int;
    d

Size == total \div k
Rem == total % k
Start(x) == IF x < Rem THEN x * Size + x ELSE x * Size + Rem
End(x) == IF x < Rem THEN x * Size + Size + x + 1 ELSE x * Size + Size + Rem
Len(x) == End(x) - Start(x)

SplitStart(x) == IF x < Rem THEN x * (Size + 1) ELSE Rem * (Size + 1) + (x - Rem) * Size
SplitLen(x) == IF x < Rem THEN Size + 1 ELSE Size

Init == total \in Nat /\ k \in Nat /\ k >= 1 /\ c \in Nat /\ c < k /\ d \in Nat /\ d < k
Next == UNCHANGED <<total, k, c, d>>

Inv == /\ Start(0) = 0
       /\ End(k - 1) = total
       /\ (c + 1 < k => End(c) = Start(c + 1))
       /\ Len(c) >= 0
       /\ Len(c) - Len(d) <= 1 /\ Len(d) - Len(c) <= 1
       /\ (c < d => Len(c) >= Len(d))
       /\ SplitStart(0) = 0
       /\ SplitStart(k - 1) + SplitLen(k - 1) = total
       /\ (c + 1 < k => SplitStart(c) + SplitLen(c) = SplitStart(c + 1))
       /\ SplitLen(c) >= 0 /\ SplitLen(c) - SplitLen(d) <= 1 /\ SplitLen(d) - SplitLen(c) <= 1
       /\ SplitStart(c) = Start(c) /\ SplitLen(c) = Len(c)          \* the two arithmetics coincide
=============================================================================
