---------------------------- MODULE TraceLifecycle ----------------------------
(* C02 / C03 / C12, conformance.  A trace is one history of real operations on real Screen objects    *)
(* (driven either by a behaviour TLC explored or by a random driver); after every operation the       *)
(* harness logs the full projection of every object of the lineage (both screens, every file).        *)
(* The constant Focus selects which property is being decided, so that a change that breaks one of    *)
(* them cannot raise an alarm on the others:                                                          *)
(*   "C12": every event is replayed through the action of Lifecycle; mask, stored values, conditions, *)
(*          plate assignment, plate ids, counters and refusals must equal the specification's.        *)
(*   "C03": every object after every event must carry the prepared screen's mappings, its ids must    *)
(*          be the lookups of its own names in them, sizes must not shrink, predictions per           *)
(*          experiment must be those of the prepared stage.                                           *)
(*   "C02": Save writes exactly the current screen, Load returns exactly the file, nothing else       *)
(*          changes (evaluated on the logged projections themselves).                                 *)
EXTENDS Lifecycle, TraceLib

CONSTANTS Focus,
          Strict     \* (Focus C12) TRUE: requested plate ids are taken as the specification's ids and the logged plate ids / plate mapping
                     \*   must equal the specification's (plate id = rank of the plate name): conformance, reported as drift;
                     \* FALSE: a requested id stands for the plate NAME it has in the real object (logged), and the logged ids only have to
                     \*   identify plates - C12 does not say how plates are numbered
VARIABLES tid, l
T == Traces[tid]
Ev == T.events[l]
SetOf(q) == {q[x] : x \in 1..Len(q)}

TInit == tid \in 1..Len(Traces) /\ l = 1 /\ Init

\* ids of the specification's screen s whose plates carry one of these names (+ an id that names no plate)
NameIds(s, names) == {s.pid[x] : x \in {y \in Pos(s) : s.pl[y] \in names}}
ReqIds(s, names, unk) == NameIds(s, SetOf(names)) \cup (IF unk THEN {-1} ELSE {})
IdOfName(s, nm) == IF NameIds(s, {nm}) = {} THEN -7 ELSE CHOOSE i \in NameIds(s, {nm}) : TRUE
Act(e) ==
    IF ~Strict /\ e.op = "reveal" THEN Reveal(e.h, ReqIds(scr[e.h], e.Sn, e.unk))
    ELSE IF ~Strict /\ e.op = "set_observed" THEN SetObserved(e.h, NameIds(scr[e.h], SetOf(e.Pn)))
    ELSE IF ~Strict /\ e.op = "merge" THEN MergePlates(e.h, IdOfName(scr[e.h], e.an), IdOfName(scr[e.h], e.bn))
    ELSE IF ~Strict /\ e.op = "cli_reveal" THEN CliReveal(e.p, e.q, ReqIds(files[e.p], e.Sn, e.unk))
    ELSE
    CASE e.op = "split" -> Split(SetOf(e.sel))
      [] e.op = "reveal" -> Reveal(e.h, SetOf(e.S))
      [] e.op = "mask" -> Mask(e.h)
      [] e.op = "unmask" -> Unmask(e.h)
      [] e.op = "set_observed" -> SetObserved(e.h, SetOf(e.P))
      [] e.op = "merge" -> MergePlates(e.h, e.a, e.b)
      [] e.op = "save" -> Save(e.h, e.p)
      [] e.op = "load" -> Load(e.p, e.h)
      [] e.op = "cli_reveal" -> CliReveal(e.p, e.q, SetOf(e.S))
      [] e.op = "cli_meta" -> CliMeta(e.p)

Enabled(e) == CASE e.op = "split" -> SetOf(e.sel) \in SplitChoices(scr["train"]) [] OTHER -> TRUE

(* ---- C12 ---- *)
Eq12(a, s) == IF ~s.live THEN ~a.live
              ELSE /\ a.live /\ a.sample = Proj(s).sample /\ a.treat = Proj(s).treat /\ a.plate = Proj(s).plate
                   /\ a.val = s.val /\ a.mask = s.mask
                   /\ IF Strict THEN a.pids = PlateIds(s) /\ a.pmap = PlateEnc(s).mapping
                      ELSE \A x, y \in 1..Len(a.pids) : (a.pids[x] = a.pids[y]) <=> (a.plate[x] = a.plate[y])      \* ids identify plates
                   /\ a.meta.size = Meta(s).size /\ a.meta.n_plates = Meta(s).n_plates
                   /\ a.meta.n_unobserved_plates = Meta(s).n_unobserved_plates
                   /\ a.meta.n_observed_plates = Meta(s).n_observed_plates
Step12 == /\ Check(tid, l, "operation-enabled-in-spec:" \o Ev.op, Enabled(Ev))
          /\ Act(Ev)
          /\ (Ev.op \in {"reveal", "cli_reveal"} =>
                 Check(tid, l, "refusal-iff-all-zero-or-nan", Ev.refused = hist'[Len(hist')].refused))
          \* reveal / mask / unmask return a new screen; the screen they were given is left as it was (both may be held)
          /\ Check(tid, l, "operation-leaves-the-screen-it-was-given-unchanged:" \o Ev.op, Ev.arg_same)
          /\ Check(tid, l, "train-screen-after-" \o Ev.op, Eq12(Ev.after.train, scr'["train"]))
          /\ Check(tid, l, "test-screen-after-" \o Ev.op, Eq12(Ev.after.test, scr'["test"]))
          /\ \A p \in Paths : Check(tid, l, "file-after-" \o Ev.op, Eq12(Ev.after.files[p], files'[p]))
          /\ (Ev.op = "cli_meta" =>
                 LET m == Meta(files[Ev.p]) IN
                 Check(tid, l, "metadata-counters",
                       /\ Ev.meta.size = m.size /\ Ev.meta.n_plates = m.n_plates
                       /\ Ev.meta.n_unobserved_plates = m.n_unobserved_plates
                       /\ Ev.meta.n_observed_plates = m.n_observed_plates))

(* ---- C03 ---- *)
PredOf(sm, tr) ==   \* prediction token of the prepared stage for an experiment with these names
    LET r == CHOOSE r \in 1..NR : Fix.rows[r].s = sm /\ {Fix.rows[r].t[a] : a \in 1..Arity} = {tr[a] : a \in 1..Arity}
    IN Fix.rows[r].pt
\* the mappings of the prepared stage are taken from the log (T.prepared: the projection of the real prepared screen): C03 is about
\* their STABILITY through the lifecycle, whatever numbering the encoder chose (that is C01)
PSmap == T.prepared.smap
PTmap == T.prepared.tmap
Ok03(a) == ~a.live \/
    \* the carried tables hold the same (name -> id) entries as the prepared ones (C03 is about the association, not about the order
    \* in which a table lists its entries)
    /\ SetOf(a.smap) = SetOf(PSmap) /\ Len(a.smap) = Len(PSmap) /\ SetOf(a.tmap) = SetOf(PTmap) /\ Len(a.tmap) = Len(PTmap)
    /\ a.sids = [x \in 1..Len(a.sample) |-> Lookup1(a.sample[x], PSmap)]
    /\ a.tids = [x \in 1..Len(a.treat) |-> [c \in 1..Arity |-> Lookup(a.treat[x][c], PTmap)]]
    /\ a.nut >= NUniqueTreatments(PTmap) /\ a.nus >= NUniqueSamples(PSmap)
    /\ (Arity <= 2 => a.pred = [x \in 1..Len(a.sample) |-> PredOf(a.sample[x], a.treat[x])])
Step03 == /\ Check(tid, l, "train-ids-follow-prepared-mapping-after-" \o Ev.op, Ok03(Ev.after.train))
          /\ Check(tid, l, "test-ids-follow-prepared-mapping-after-" \o Ev.op, Ok03(Ev.after.test))
          /\ \A p \in Paths : Check(tid, l, "file-ids-follow-prepared-mapping-after-" \o Ev.op, Ok03(Ev.after.files[p]))
          /\ UNCHANGED vars

(* ---- C02 ---- *)
\* (the state before the first event is the LOGGED projection of the prepared screen: C02 compares real objects with each other)
Prev == IF l = 1 THEN [train |-> T.prepared, test |-> [live |-> FALSE], files |-> [p \in Paths |-> [live |-> FALSE]]]
        ELSE T.events[l - 1].after
Step02 == /\ (Ev.op = "save" =>
                 /\ Check(tid, l, "file-equals-saved-screen", Ev.after.files[Ev.p] = Ev.after[Ev.h])
                 /\ Check(tid, l, "save-leaves-screens-alone", Ev.after.train = Prev.train /\ Ev.after.test = Prev.test)
                 /\ Check(tid, l, "save-leaves-other-files-alone", \A p \in Paths \ {Ev.p} : Ev.after.files[p] = Prev.files[p]))
          /\ (Ev.op = "load" =>
                 /\ Check(tid, l, "loaded-screen-equals-file", Ev.after[Ev.h] = Prev.files[Ev.p])
                 /\ Check(tid, l, "load-leaves-files-alone", \A p \in Paths : Ev.after.files[p] = Prev.files[p]))
          /\ (Ev.op = "space" =>       \* ExperimentSpace.save_h5 / load_h5, two cycles
                 Check(tid, l, "experiment-space-roundtrip-is-a-fixed-point", Ev.sp0 = Ev.sp1 /\ Ev.sp1 = Ev.sp2))
          /\ UNCHANGED vars

TStep == /\ l <= Len(T.events)
         /\ CASE Focus = "C12" -> Step12 [] Focus = "C03" -> Step03 [] Focus = "C02" -> Step02
         /\ l' = l + 1 /\ UNCHANGED tid

TDone == l = Len(T.events) + 1 /\ Accept(tid) /\ UNCHANGED <<vars, tid, l>>
TNext == TStep \/ TDone

\* C12: the atomicity invariant evaluated on every state of every real history
TInv == Focus = "C12" => Atomic
=============================================================================
