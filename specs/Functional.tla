------------------------------ MODULE Functional ------------------------------
(* Functional dependence as a safety property (C18; reused by C09 and C04).  `memo` remembers, for      *)
(* every key (the declared inputs of an operation: inputs, parameters, seed / generator identity - and   *)
(* nothing else), the output it produced; `glob` is the identity of the process-global random state.     *)
(*   Call(key, out, g0, g1)  an operation ran with global state g0 before and g1 after                    *)
(*   Perturb(g)              somebody else (the driver) reseeded / advanced the global generator          *)
(* Deterministic:  a repeated key yields the remembered output, whatever `glob` was.                      *)
(* Neutral:        an operation leaves the global state as it found it.                                   *)
EXTENDS Naturals, Sequences, FiniteSets, TLC

CONSTANTS Keys, Outs, Globs
VARIABLES memo, glob, ok
vars == <<memo, glob, ok>>

Init == memo = [k \in {} |-> 0] /\ glob \in Globs /\ ok = TRUE
Deterministic(key, out) == key \in DOMAIN memo => memo[key] = out
Call(key, out, g0, g1) ==
    /\ g0 = glob
    /\ memo' = [k \in DOMAIN memo \cup {key} |-> IF k = key THEN (IF key \in DOMAIN memo THEN memo[key] ELSE out) ELSE memo[k]]
    /\ glob' = g1
    /\ ok' = (ok /\ Deterministic(key, out) /\ g1 = g0)
Perturb(g) == glob' = g /\ UNCHANGED <<memo, ok>>
\* a conforming system: outputs are a function F of the key and calls do not touch the global state
F(k) == k
ConformingCall == \E k \in Keys : Call(k, F(k), glob, glob)
PerturbAny == \E g \in Globs : Perturb(g)
Next == ConformingCall \/ PerturbAny
AlwaysOk == ok
=============================================================================
