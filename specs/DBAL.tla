--------------------------------- MODULE DBAL ---------------------------------
(* C05.  The documented DBAL estimator of one plate, loop by loop and unpadded, as a term:                *)
(*   score(p) = log sum over triples i > j > k of posterior samples of                                     *)
(*        exp(  sum_e 1/2 log(1 / alpha_e)                                                                 *)
(*            - sum_e phi_e * ( v_k (m_i - m_j)^2 + v_j (m_i - m_k)^2 + v_i (m_j - m_k)^2 )                *)
(*            + log(d_ij + d_jk + d_ik) )                                                                  *)
(*   alpha_e = v_i v_j + v_j v_k + v_i v_k,   phi_e = 1/2 v_i v_j v_k / alpha_e^2                           *)
(* with m = Ref("m", <<theta, e>>), v = Ref("v", <<theta, e>>) the plate's OWN predicted means and          *)
(* variances and d = Ref("d", <<i, j>>) the distance matrix.  Nothing else appears in the term, which is     *)
(* why equality of the implementation's score with it yields every invariance of the statement (other       *)
(* plates, padding, batch size, order of co-scored plates).                                                 *)
EXTENDS Terms, SequencesExt, TLC, Json, IOUtils

CONSTANTS MaxN, MaxE, Export, UseCases
Cases == IF UseCases THEN JsonDeserialize(IOEnv.CASES_FILE) ELSE << >>
VARIABLES n, e, phase
vars == <<n, e, phase>>

Init == /\ IF UseCases THEN \E c \in 1..Len(Cases) : n = Cases[c].n /\ e = Cases[c].e
           ELSE n \in 3..MaxN /\ e \in 1..MaxE
        /\ phase = 0
Next == phase = 0 /\ phase' = 1 /\ UNCHANGED <<n, e>>

Triples(m) == {t \in (0..m - 1) \X (0..m - 1) \X (0..m - 1) : t[1] > t[2] /\ t[2] > t[3]}
\* the triples in ascending order, built directly (no sorting): i = a - 1 > j = b - 1 > k = c - 1
TripleSeq(m) == FlattenSeq([a \in 1..m |-> FlattenSeq([b \in 1..a - 1 |-> [c \in 1..b - 1 |-> <<a - 1, b - 1, c - 1>>]])])
M(th, x) == Ref("m", <<th, x>>)
V(th, x) == Ref("v", <<th, x>>)
Alpha(i, j, k, x) == Add(<<Mul(<<V(i, x), V(j, x)>>), Mul(<<V(j, x), V(k, x)>>), Mul(<<V(i, x), V(k, x)>>)>>)
Phi(i, j, k, x) == Div(Mul(<<Rat(1, 2), V(i, x), V(j, x), V(k, x)>>), Sq(Alpha(i, j, k, x)))
Quad(i, j, k, x) == Add(<<Mul(<<V(k, x), Sq(Sub(M(i, x), M(j, x)))>>), Mul(<<V(j, x), Sq(Sub(M(i, x), M(k, x)))>>),
                          Mul(<<V(i, x), Sq(Sub(M(j, x), M(k, x)))>>)>>)
TripleTerm(i, j, k, ne) ==
    Add([x \in 1..ne |-> Mul(<<Rat(1, 2), Log(Div(Num(1), Alpha(i, j, k, x - 1)))>>)]
        \o [x \in 1..ne |-> Neg(Mul(<<Phi(i, j, k, x - 1), Quad(i, j, k, x - 1)>>))]
        \o <<Log(Add(<<Ref("d", <<i, j>>), Ref("d", <<j, k>>), Ref("d", <<i, k>>)>>))>>)
Direct(m, ne) == LET ts == TripleSeq(m) IN LSE([q \in 1..Len(ts) |-> TripleTerm(ts[q][1], ts[q][2], ts[q][3], ne)])

(* ---- structural clauses ---- *)
Choose3(m) == (m * (m - 1) * (m - 2)) \div 6
AllTriplesOnce == phase = 1 => /\ Len(TripleSeq(n)) = Choose3(n) /\ Len(Direct(n, e).xs) = Choose3(n)
                                /\ (n <= 12 => {TripleSeq(n)[q] : q \in 1..Len(TripleSeq(n))} = Triples(n))
OwnCellsOnly == phase = 1 => \A r \in Refs(Direct(n, e)) :
                    \/ (r[1] \in {"m", "v"} /\ r[2][1] \in 0..n - 1 /\ r[2][2] \in 0..e - 1)
                    \/ (r[1] = "d" /\ r[2][1] > r[2][2])
EveryCellUsed == phase = 1 => \A th \in 0..n - 1, x \in 0..e - 1 : <<"m", <<th, x>>>> \in Refs(Direct(n, e)) /\ <<"v", <<th, x>>>> \in Refs(Direct(n, e))
ExportCase == (Export /\ phase = 1) => PrintT(ToJson([tag |-> "dbal", n |-> n, e |-> e, term |-> Direct(n, e)]))
=============================================================================
