--------------------------- MODULE TraceThetaStore ---------------------------
(* C10, conformance.  "ops": a real history of holder operations with the projection (declared size,   *)
(* item tokens) of both holders and both files after every step and whether the call was refused.       *)
(* "chains": the prediction columns and chain ids the real evaluate_model command produced for chain     *)
(* files of the given sizes in the given order (column token = token of the sample that predicts so).    *)
EXTENDS ThetaStore, TraceLib
VARIABLES tid, l
T == Traces[tid]
Ev == T.events[l]
TInit == /\ tid \in 1..Len(Traces) /\ l = 1
         /\ mem = [h \in 1..3 |-> [cap |-> 0, items |-> << >>]] /\ disk = [p \in 1..2 |-> Absent]
         /\ hist = << >> /\ last = "none" /\ order = << >> /\ result = << >>
         /\ sizes = IF Traces[tid].kind = "chains" THEN Traces[tid].sizes ELSE << >>
\* item tokens of the log are positional: Tok(h, position in history) as the spec assigns them
Act(e) == CASE e.op = "new" -> NewHolder(e.h, e.cap) [] e.op = "add" -> Add(e.h) [] e.op = "get" -> Get(e.h, e.i)
            [] e.op = "save" -> Save(e.h, e.p) [] e.op = "load" -> Load(e.p, e.h) [] e.op = "concat" -> Concat(e.a, e.b)
            [] e.op = "retable" -> Retable
ProjH(hd) == [cap |-> hd.cap, items |-> hd.items]
TStep == /\ T.kind = "ops" /\ l <= Len(T.events)
         /\ Act(Ev)
         /\ Check(tid, l, "refusal:" \o Ev.op, Ev.refused = (last' = "refused"))
         /\ \A h \in 1..3 : Check(tid, l, "holder-after-" \o Ev.op, Ev.mem[h] = ProjH(mem'[h]))
         /\ \A p \in 1..2 : Check(tid, l, "file-after-" \o Ev.op, Ev.disk[p] = ProjH(disk'[p]))
         /\ l' = l + 1 /\ UNCHANGED tid
TChains == /\ T.kind = "chains" /\ l = 1
           /\ Evaluate(T.order)
           /\ Check(tid, l, "loaded-chain-equals-saved-chain", \A c \in 1..Len(sizes) : T.loaded[c] = ProjH(ChainHolder(c, sizes[c])))
           /\ Check(tid, l, "prediction-columns-chain-major", T.cols = result'.cols)
           /\ Check(tid, l, "chain-ids-aligned-with-columns", T.chain_ids = result'.chain_ids)
           /\ l' = 2 /\ UNCHANGED tid
TDone == l = (IF T.kind = "ops" THEN Len(T.events) + 1 ELSE 2) /\ Accept(tid) /\ UNCHANGED <<vars, tid, l>>
TNext == TStep \/ TChains \/ TDone
=============================================================================
