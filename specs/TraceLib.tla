------------------------------ MODULE TraceLib ------------------------------
(* Shared plumbing of the trace specifications (instrument C of DESIGN.md section 2).              *)
(* $TRACE_FILE holds a JSON array of traces; a trace specification picks one trace id `tid` in its *)
(* initial state, consumes the trace, and prints one verdict line.  Every conjunct of a trace      *)
(* action is wrapped in Check(..) so that a rejection names the clause and the position.           *)
EXTENDS Naturals, Sequences, TLC, Json, IOUtils

Traces == JsonDeserialize(IOEnv.TRACE_FILE)

Fail(tid, l, name) == PrintT(ToJson([tag |-> "fail", tid |-> tid, l |-> l, clause |-> name])) /\ FALSE
\* IF, not \/ : inside an action TLC explores both disjuncts of a disjunction, which would print a failure
\* for a clause that holds
Check(tid, l, name, cond) == IF cond THEN TRUE ELSE Fail(tid, l, name)
Accept(tid) == PrintT(ToJson([tag |-> "accept", tid |-> tid]))

\* verdict of a one-event trace (a single call of a pure function): accept iff ok
Verdict(tid, ok) == IF ok THEN Accept(tid) ELSE TRUE
=============================================================================
