------------------------------ MODULE ThetaStore ------------------------------
(* C10.  Collections of posterior samples.  A sample is an opaque token (the harness interns the bit   *)
(* pattern of every parameter, so token equality is bit-for-bit equality).  A holder is [cap, items].   *)
(*  Model = "ops":    two holders and two files under add / get / save / load / concat with their        *)
(*                    refusals (full, out of range, empty)                                              *)
(*  Model = "chains": per-chain holders of the given sizes are saved, loaded, concatenated in a chosen   *)
(*                    file order and handed to model evaluation, which labels prediction columns with    *)
(*                    chain ids built from the per-file sizes                                            *)
(* LoadLex is the lexicographic group order a careless loader would use; it is NOT a behaviour of the    *)
(* specification and differs from the numeric order from 11 samples on (checked as LexDiffers).          *)
EXTENDS Naturals, Integers, Sequences, FiniteSets, SequencesExt, TLC, Json

CONSTANTS Model, MaxCap, MaxDepth, Sizes, MaxChains, Export

VARIABLES mem,     \* [1..3 -> holder]   (handle 3 receives the result of concat, so its operands stay observable)
          disk,    \* [1..2 -> holder or Absent]
          hist, last,
          sizes, order, result   \* chains model
vars == <<mem, disk, hist, last, sizes, order, result>>
View == <<mem, disk, last, sizes, order, result>>

Absent == [cap |-> -1, items |-> << >>]
Tok(c, s) == c * 100 + s                      \* sample s (1-based step order) of chain c
ChainHolder(c, n) == [cap |-> n, items |-> [s \in 1..n |-> Tok(c, s)]]

Init == /\ mem = [h \in 1..3 |-> [cap |-> 0, items |-> << >>]]
        /\ disk = [p \in 1..2 |-> Absent] /\ hist = << >> /\ last = "none"
        /\ IF Model = "ops"
           THEN sizes = << >> /\ order = << >> /\ result = << >>
           ELSE /\ sizes \in UNION {[1..n -> Sizes] : n \in 1..MaxChains}
                /\ order = << >> /\ result = << >>

Log(e) == hist' = Append(hist, e)
Keep == UNCHANGED <<sizes, order, result>>

(* ---- ops ---- *)
NewHolder(h, c) == /\ Model = "ops" /\ Len(hist) = h - 1 /\ h \in 1..2 /\ c \in 0..MaxCap   \* ThetaHolder(n_thetas=c), first two steps
                   /\ mem' = [mem EXCEPT ![h] = [cap |-> c, items |-> << >>]]
                   /\ last' = "ok" /\ Log([op |-> "new", h |-> h, cap |-> c]) /\ UNCHANGED disk /\ Keep
Ready == Model = "ops" /\ Len(hist) >= 2
Add(h) == /\ Ready /\ h \in 1..3
          /\ IF Len(mem[h].items) >= mem[h].cap
             THEN last' = "refused" /\ UNCHANGED mem
             ELSE last' = "ok" /\ mem' = [mem EXCEPT ![h].items = Append(@, Tok(h, Len(hist)))]
          /\ Log([op |-> "add", h |-> h]) /\ UNCHANGED disk /\ Keep
Get(h, i) == /\ Ready /\ h \in 1..3 /\ i \in -1..MaxCap
             /\ last' = IF i >= 0 /\ i < Len(mem[h].items) THEN "ok" ELSE "refused"
             /\ Log([op |-> "get", h |-> h, i |-> i]) /\ UNCHANGED <<mem, disk>> /\ Keep
Save(h, p) == /\ Ready /\ h \in 1..3 /\ p \in 1..2
              /\ IF mem[h].items = << >> THEN last' = "refused" /\ UNCHANGED disk
                 ELSE last' = "ok" /\ disk' = [disk EXCEPT ![p] = mem[h]]
              /\ Log([op |-> "save", h |-> h, p |-> p]) /\ UNCHANGED mem /\ Keep
Load(p, h) == /\ Ready /\ h \in 1..2 /\ p \in 1..2 /\ disk[p] # Absent
              /\ mem' = [mem EXCEPT ![h] = disk[p]] /\ last' = "ok"
              /\ Log([op |-> "load", h |-> h, p |-> p]) /\ UNCHANGED disk /\ Keep
\* handle 3 := ThetaHolder.concat([mem[a], mem[b]]); the operands are left as they were
Concat(a, b) == /\ Ready /\ a \in 1..3 /\ b \in 1..3
                /\ mem' = [mem EXCEPT ![3] = [cap |-> mem[a].cap + mem[b].cap, items |-> mem[a].items \o mem[b].items]]
                /\ last' = "ok" /\ Log([op |-> "concat", a |-> a, b |-> b]) /\ UNCHANGED disk /\ Keep

\* the parameters shared by the samples of a model (the interaction model's single-agent table) are updated IN PLACE - the model
\* received another plate -: every sample in memory is now another value, the files are what they were.  Only modelled before the
\* first load (loaded samples carry their own copy of the table and would not change).
Retable == /\ Ready /\ ~\E x \in 1..Len(hist) : hist[x].op = "load"
           /\ mem' = [h \in 1..3 |-> [mem[h] EXCEPT !.items = [x \in 1..Len(mem[h].items) |-> mem[h].items[x] + 1000 * (Len(hist) + 1)]]]
           /\ last' = "ok" /\ Log([op |-> "retable"]) /\ UNCHANGED disk /\ Keep

(* ---- chains ---- *)
Perms(n) == {q \in [1..n -> 1..n] : \A a, b \in 1..n : a # b => q[a] # q[b]}
RECURSIVE CatChains(_, _)
CatChains(ord, x) == IF x > Len(ord) THEN << >> ELSE ChainHolder(ord[x], sizes[ord[x]]).items \o CatChains(ord, x + 1)
RECURSIVE CatIds(_, _)
CatIds(ord, x) == IF x > Len(ord) THEN << >> ELSE [s \in 1..sizes[ord[x]] |-> x - 1] \o CatIds(ord, x + 1)
\* every chain saved to its own file, files given to evaluate_model in the order `ord`
Evaluate(ord) == /\ Model = "chains" /\ order = << >> /\ ord \in Perms(Len(sizes))
                 /\ order' = ord
                 /\ result' = [cols |-> CatChains(ord, 1), chain_ids |-> CatIds(ord, 1)]
                 /\ Log([op |-> "evaluate", order |-> ord]) /\ last' = "ok" /\ UNCHANGED <<mem, disk, sizes>>

NewHolderAny == \E h \in 1..2, c \in 0..MaxCap : NewHolder(h, c)
AddAny == \E h \in 1..3 : Add(h)
GetAny == \E h \in 1..3, i \in -1..MaxCap : Get(h, i)
SaveAny == \E h \in 1..3, p \in 1..2 : Save(h, p)
LoadAny == \E h \in 1..2, p \in 1..2 : Load(p, h)
ConcatAny == \E a, b \in 1..3 : Concat(a, b)
EvaluateAny == \E ord \in Perms(MaxChains) \cup Perms(1) \cup Perms(2) : Evaluate(ord)
Next == NewHolderAny \/ AddAny \/ GetAny \/ SaveAny \/ LoadAny \/ ConcatAny \/ Retable \/ EvaluateAny
Bound == Len(hist) <= MaxDepth
NoIdleRuns == (Len(hist') >= 2 /\ View' = View) => (hist'[Len(hist') - 1] # hist'[Len(hist')])

(* ---- C10 ---- *)
CapRespected == \A h \in 1..3 : Len(mem[h].items) <= mem[h].cap
NeverSavedEmpty == \A p \in 1..2 : disk[p] # Absent => disk[p].items # << >>
LoadIsSaved == [][\A h \in 1..3 : (Len(hist') > Len(hist) /\ hist'[Len(hist')].op = "load" /\ hist'[Len(hist')].h = h)
                     => mem'[h] = disk[hist'[Len(hist')].p]]_vars
ChainMajor == (Model = "chains" /\ order # << >>) =>
    /\ Len(result.cols) = Len(result.chain_ids)
    /\ \A x \in 1..Len(result.cols) : result.cols[x] \div 100 = order[result.chain_ids[x] + 1]          \* column labelled with its chain
    /\ \A x, y \in 1..Len(result.cols) : x < y => \/ result.chain_ids[x] < result.chain_ids[y]
                                                  \/ (result.chain_ids[x] = result.chain_ids[y] /\ result.cols[x] < result.cols[y])
\* numeric versus lexicographic order of the group keys "0".."n-1"
Digits(k) == IF k < 10 THEN << k >> ELSE << k \div 10, k % 10 >>
LexLess(a, b) == LET da == Digits(a)  db == Digits(b) IN
                 \/ da[1] < db[1] \/ (da[1] = db[1] /\ Len(da) < Len(db)) \/ (da[1] = db[1] /\ Len(da) = 2 /\ Len(db) = 2 /\ da[2] < db[2])
LoadLex(n) == SetToSortSeq(0..n - 1, LexLess)
LexDiffers == \A n \in 1..12 : (LoadLex(n) # [x \in 1..n |-> x - 1]) <=> n >= 11

ExportPath == (Export /\ Model = "ops") => PrintT(ToJson([tag |-> "path", hist |-> hist]))
ExportChains == (Export /\ Model = "chains" /\ order # << >>) =>
    PrintT(ToJson([tag |-> "chains", sizes |-> sizes, order |-> order, cols |-> result.cols, chain_ids |-> result.chain_ids]))
=============================================================================
