------------------------------ MODULE Lifecycle ------------------------------
(* C02 / C03 / C12 (and the hold-out clauses of C11).  The lineage of screens derived from one       *)
(* prepared simulation: the training screen, the held-out test screen, everything obtained from      *)
(* them by reveal / mask / unmask / set_observed, and the files written by save_h5 and read back.    *)
(*                                                                                                    *)
(* A fixture ($FIXTURE_FILE, JSON) fixes the experiments: for row r its sample-name token, its        *)
(* (treatment name, dose) tokens, its plate-name token and its stored observation token; which value  *)
(* tokens are 0.0 / NaN; which plates start observed; the control-name token; the hold-out fraction.  *)
(* A screen is [live, rows, mask, val, smap, tmap]: which fixture rows it holds (in order), their      *)
(* mask and stored values, and the two id mappings it carries.  Ids are never stored: they are the    *)
(* lookup of the row's names in the screen's own mappings (plate ids: the 1-d encoder on the plate    *)
(* names present), exactly as the constructor computes them.                                          *)
(*                                                                                                    *)
(* One action per public operation of the code:                                                       *)
(*   Split          create_plate_balanced_holdout_set_among_masked_plates                             *)
(*   Reveal/Refused reveal_plates (np.isin on plate ids, OR with the old mask, zero / NaN guards)      *)
(*   Mask, Unmask   mask_screen, unmask_screen                                                        *)
(*   SetObserved    Screen.set_observed (in place)                                                    *)
(*   Save, Load     Screen.save_h5, Screen.load_h5                                                    *)
(*   CliReveal      the reveal_plate command (load, reveal, save)                                     *)
(*   CliMeta        the extract_screen_metadata command (observation only)                            *)
EXTENDS EncodingOps, TLC, Json, IOUtils

CONSTANTS MaxDepth, Paths, Export

Fix == JsonDeserialize(IOEnv.FIXTURE_FILE)
NR == Len(Fix.rows)
Arity == Fix.arity
IsZeroTok(v) == v \in {Fix.zero[x] : x \in 1..Len(Fix.zero)}
IsNaNTok(v) == v \in {Fix.nan[x] : x \in 1..Len(Fix.nan)}

VARIABLES scr,    \* [{"train","test"} -> screen]
          files,  \* [Paths -> screen]
          hist    \* the operations performed so far (not part of the VIEW)
vars == <<scr, files, hist>>
View == <<scr, files>>
Handles == {"train", "test"}

\* pid / npl cache the plate ids of the rows (recomputed whenever the row set changes: they are derived data)
Dead == [live |-> FALSE, rows |-> << >>, mask |-> << >>, val |-> << >>, smap |-> << >>, tmap |-> << >>, pl |-> << >>, pid |-> << >>, npl |-> 0]

(* ---------------- derived attributes of a screen ---------------- *)
Pos(s) == 1..Len(s.rows)
SampleName(s, x) == Fix.rows[s.rows[x]].s
PlateName(s, x) == s.pl[x]                 \* the plate label of a row can change (Plate.merge relabels rows in place)
Treat(s, x) == Fix.rows[s.rows[x]].t
PlateEnc(s) == Encode1([x \in Pos(s) |-> PlateName(s, x)])
PlateIds(s) == s.pid
NPlates(s) == s.npl
SampleIds(s) == [x \in Pos(s) |-> Lookup1(SampleName(s, x), s.smap)]
TreatIds(s) == [x \in Pos(s) |-> [a \in 1..Arity |-> Lookup(Treat(s, x)[a], s.tmap)]]
PlatePos(s, pid) == {x \in Pos(s) : PlateIds(s)[x] = pid}
PlateObserved(s, pid) == \A x \in PlatePos(s, pid) : s.mask[x]
Unobserved(s) == {pid \in 0..NPlates(s) - 1 : ~PlateObserved(s, pid)}

\* screen_metadata.json
Meta(s) == [n_unique_samples |-> Cardinality({SampleIds(s)[x] : x \in Pos(s)}),
            n_unique_treatments |-> Cardinality({TreatIds(s)[x][a] : x \in Pos(s), a \in 1..Arity} \ {-1}),
            size |-> Len(s.rows), n_plates |-> NPlates(s),
            n_unobserved_plates |-> Cardinality(Unobserved(s)),
            n_observed_plates |-> NPlates(s) - Cardinality(Unobserved(s))]

\* everything observable of a screen (what the conformance harness compares after every step)
Proj(s) == IF ~s.live THEN [live |-> FALSE]
           ELSE [live |-> TRUE,
                 sample |-> [x \in Pos(s) |-> SampleName(s, x)],
                 treat |-> [x \in Pos(s) |-> Treat(s, x)],
                 plate |-> [x \in Pos(s) |-> PlateName(s, x)],
                 val |-> s.val, mask |-> s.mask,
                 sids |-> SampleIds(s), tids |-> TreatIds(s), pids |-> PlateIds(s),
                 smap |-> s.smap, tmap |-> s.tmap, pmap |-> PlateEnc(s).mapping,
                 nut |-> NUniqueTreatments(s.tmap), nus |-> NUniqueSamples(s.smap),
                 pred |-> [x \in Pos(s) |-> Fix.rows[s.rows[x]].pt],
                 ctl |-> Fix.ctl,
                 meta |-> Meta(s)]

Keep(s, keep) ==   \* keep: set of positions, order preserved
    LET idx == SetToSortSeq(keep, <) IN
    LET rr == [y \in 1..Len(idx) |-> s.rows[idx[y]]]
        pp == [y \in 1..Len(idx) |-> s.pl[idx[y]]]
        pe == Encode1(pp)
    IN [live |-> TRUE, rows |-> rr, mask |-> [y \in 1..Len(idx) |-> s.mask[idx[y]]],
        val |-> [y \in 1..Len(idx) |-> s.val[idx[y]]], smap |-> s.smap, tmap |-> s.tmap,
        pl |-> pp, pid |-> pe.ids, npl |-> Len(pe.mapping)]

(* ---------------- initial state: the prepared simulation ---------------- *)
Prepared ==
    LET rows == [x \in 1..NR |-> x]
        stack == Stack([x \in 1..NR |-> Fix.rows[x].t], Arity)
        pe == Encode1([x \in 1..NR |-> Fix.rows[x].p])
    IN [live |-> TRUE, rows |-> rows, pl |-> [x \in 1..NR |-> Fix.rows[x].p], pid |-> pe.ids, npl |-> Len(pe.mapping),
        mask |-> [x \in 1..NR |-> Fix.rows[x].p \in {Fix.obs[y] : y \in 1..Len(Fix.obs)}],
        val |-> [x \in 1..NR |-> Fix.rows[x].v],
        smap |-> Mapping1([x \in 1..NR |-> Fix.rows[x].s]),
        tmap |-> MappingOf(stack, Fix.ctl)]

Init == /\ scr = [h \in Handles |-> IF h = "train" THEN Prepared ELSE Dead]
        /\ files = [p \in Paths |-> Dead]
        /\ hist = << >>

Log(e) == hist' = Append(hist, e)

(* ---------------- hold-out split ---------------- *)
Need(size) == (size * Fix.fn + Fix.fd - 1) \div Fix.fd        \* ceil(size * fraction)
SplitChoices(s) ==
    {sel \in SUBSET Pos(s) :
        /\ \A x \in sel : ~s.mask[x]
        /\ \A pid \in Unobserved(s) : Cardinality(sel \cap PlatePos(s, pid)) = Need(Cardinality(PlatePos(s, pid)))}

Split(sel) ==
    /\ scr["train"].live /\ ~scr["test"].live /\ ~(\E x \in 1..Len(hist) : hist[x].op = "split")
    /\ sel \in SplitChoices(scr["train"])
    /\ sel # {} /\ sel # Pos(scr["train"])                       \* both halves non-empty (assumption of the model)
    /\ scr' = [scr EXCEPT !["train"] = Keep(scr["train"], Pos(scr["train"]) \ sel),
                          !["test"] = [Keep(scr["train"], sel) EXCEPT !.mask = [y \in 1..Cardinality(sel) |-> TRUE]]]
    /\ Log([op |-> "split", sel |-> SetToSortSeq(sel, <)])
    /\ UNCHANGED files

(* ---------------- reveal / mask / unmask ---------------- *)
RevealSel(s, S) == {x \in Pos(s) : PlateIds(s)[x] \in S}
RevealRefuses(s, S) == \/ \A x \in RevealSel(s, S) : IsZeroTok(s.val[x])          \* includes the empty selection
                       \/ \E x \in RevealSel(s, S) : IsNaNTok(s.val[x])
Revealed(s, S) == [s EXCEPT !.mask = [x \in Pos(s) |-> s.mask[x] \/ x \in RevealSel(s, S)]]

\* every logged request also says which plate NAMES the ids stand for (and whether some id names no plate), so that a history can be
\* replayed on objects that number their plates differently
NamesOf(s, S) == SetToSortSeq({s.pl[x] : x \in {y \in Pos(s) : s.pid[y] \in S}}, <)
HasUnknown(s, S) == \E i \in S : i < 0 \/ i >= NPlates(s)
NameOf(s, a) == s.pl[CHOOSE x \in Pos(s) : s.pid[x] = a]
Reveal(h, S) ==
    /\ scr[h].live /\ S \in SUBSET (-1..NPlates(scr[h]))         \* ids -1 and NPlates: unknown plate ids
    /\ IF RevealRefuses(scr[h], S)
       THEN /\ UNCHANGED <<scr, files>>
            /\ Log([op |-> "reveal", h |-> h, S |-> SetToSortSeq(S, <), refused |-> TRUE, Sn |-> NamesOf(scr[h], S), unk |-> HasUnknown(scr[h], S)])
       ELSE /\ scr' = [scr EXCEPT ![h] = Revealed(scr[h], S)]
            /\ Log([op |-> "reveal", h |-> h, S |-> SetToSortSeq(S, <), refused |-> FALSE, Sn |-> NamesOf(scr[h], S), unk |-> HasUnknown(scr[h], S)])
            /\ UNCHANGED files

Mask(h) == /\ scr[h].live
           /\ scr' = [scr EXCEPT ![h] = [scr[h] EXCEPT !.mask = [x \in Pos(scr[h]) |-> FALSE]]]
           /\ Log([op |-> "mask", h |-> h]) /\ UNCHANGED files
Unmask(h) == /\ scr[h].live
             /\ scr' = [scr EXCEPT ![h] = [scr[h] EXCEPT !.mask = [x \in Pos(scr[h]) |-> TRUE]]]
             /\ Log([op |-> "unmask", h |-> h]) /\ UNCHANGED files

\* Screen.set_observed on a selection made of whole plates, new value of position x: token Fix.newval + x
SetObserved(h, P) ==
    /\ scr[h].live /\ P \in SUBSET (0..NPlates(scr[h]) - 1) /\ P # {}
    /\ LET sel == {x \in Pos(scr[h]) : PlateIds(scr[h])[x] \in P} IN
       scr' = [scr EXCEPT ![h] = [scr[h] EXCEPT !.mask = [x \in Pos(scr[h]) |-> scr[h].mask[x] \/ x \in sel],
                                                 !.val = [x \in Pos(scr[h]) |-> IF x \in sel THEN Fix.newval + x ELSE scr[h].val[x]]]]
    /\ Log([op |-> "set_observed", h |-> h, P |-> SetToSortSeq(P, <), Pn |-> NamesOf(scr[h], P)]) /\ UNCHANGED files

\* Plate.merge (used by the merge smoothers): plates a and b become one plate IN PLACE, plate ids are re-derived
MergePlates(h, a, b) ==
    /\ scr[h].live /\ a \in 0..NPlates(scr[h]) - 1 /\ b \in 0..NPlates(scr[h]) - 1 /\ a # b
    /\ PlateObserved(scr[h], a) = PlateObserved(scr[h], b)           \* (merging across observation status is outside the model)
    /\ LET s == scr[h]
           both == {x \in Pos(s) : s.pid[x] \in {a, b}}
           \* Plate.merge reads plate_name AFTER uniting the selections: the label of the first row of the union wins
           name == s.pl[CHOOSE x \in both : \A y \in both : x <= y]
           pp == [x \in Pos(s) |-> IF x \in both THEN name ELSE s.pl[x]]
           pe == Encode1(pp) IN
       scr' = [scr EXCEPT ![h] = [s EXCEPT !.pl = pp, !.pid = pe.ids, !.npl = Len(pe.mapping)]]
    /\ Log([op |-> "merge", h |-> h, a |-> a, b |-> b, an |-> NameOf(scr[h], a), bn |-> NameOf(scr[h], b)]) /\ UNCHANGED files

(* ---------------- persistence ---------------- *)
Save(h, p) == /\ scr[h].live /\ files' = [files EXCEPT ![p] = scr[h]]
              /\ Log([op |-> "save", h |-> h, p |-> p]) /\ UNCHANGED scr
Load(p, h) == /\ files[p].live /\ scr' = [scr EXCEPT ![h] = files[p]]
              /\ Log([op |-> "load", h |-> h, p |-> p]) /\ UNCHANGED files
CliReveal(p, q, S) ==
    /\ files[p].live /\ S \in SUBSET (-1..NPlates(files[p])) /\ S # {}
    /\ IF RevealRefuses(files[p], S)
       THEN UNCHANGED files /\ Log([op |-> "cli_reveal", p |-> p, q |-> q, S |-> SetToSortSeq(S, <), refused |-> TRUE,
                                     Sn |-> NamesOf(files[p], S), unk |-> HasUnknown(files[p], S)])
       ELSE files' = [files EXCEPT ![q] = Revealed(files[p], S)]
            /\ Log([op |-> "cli_reveal", p |-> p, q |-> q, S |-> SetToSortSeq(S, <), refused |-> FALSE,
                     Sn |-> NamesOf(files[p], S), unk |-> HasUnknown(files[p], S)])
    /\ UNCHANGED scr
CliMeta(p) == /\ files[p].live /\ UNCHANGED <<scr, files>> /\ Log([op |-> "cli_meta", p |-> p])

SplitAny == /\ scr["train"].live /\ ~scr["test"].live /\ ~(\E x \in 1..Len(hist) : hist[x].op = "split")
            /\ \E sel \in SplitChoices(scr["train"]) : Split(sel)
RevealAny == \E h \in Handles : scr[h].live /\ \E S \in SUBSET (-1..NPlates(scr[h])) : Reveal(h, S)
MaskAny == \E h \in Handles : Mask(h)
UnmaskAny == \E h \in Handles : Unmask(h)
SetObservedAny == \E h \in Handles : scr[h].live /\ \E P \in SUBSET (0..NPlates(scr[h]) - 1) : SetObserved(h, P)
MergePlatesAny == \E h \in Handles : scr[h].live /\ \E a, b \in 0..NPlates(scr[h]) - 1 : MergePlates(h, a, b)
SaveAny == \E h \in Handles, p \in Paths : Save(h, p)
LoadAny == \E h \in Handles, p \in Paths : Load(p, h)
CliRevealAny == \E p, q \in Paths : files[p].live /\ \E S \in SUBSET (0..NPlates(files[p])) : CliReveal(p, q, S)
CliMetaAny == \E p \in Paths : CliMeta(p)

Next == SplitAny \/ RevealAny \/ MaskAny \/ UnmaskAny \/ SetObservedAny \/ MergePlatesAny \/ SaveAny \/ LoadAny \/ CliRevealAny \/ CliMetaAny
Spec == Init /\ [][Next]_vars
Bound == Len(hist) <= MaxDepth
\* keep observation-only and refused steps from inflating the exploration: at most one in a row
NoIdleRuns == (Len(hist') >= 2 /\ View' = View) => (hist'[Len(hist') - 1] # hist'[Len(hist')])

(* ---------------- C12: plates are observed atomically ---------------- *)
AllScreens == {scr[h] : h \in Handles} \cup {files[p] : p \in Paths}
Atomic == \A s \in AllScreens : s.live =>
             \A x, y \in Pos(s) : PlateName(s, x) = PlateName(s, y) => s.mask[x] = s.mask[y]
\* reveal: exactly the requested plates plus the already observed ones; the counter drops by the newly revealed plates
RevealExact == [][\A h \in Handles :
                   (Len(hist') > Len(hist) /\ hist'[Len(hist')].op = "reveal" /\ hist'[Len(hist')].h = h
                    /\ ~hist'[Len(hist')].refused) =>
                      LET S == {hist'[Len(hist')].S[x] : x \in 1..Len(hist'[Len(hist')].S)}
                          old == scr[h]  new == scr'[h] IN
                      /\ \A pid \in 0..NPlates(old) - 1 : PlateObserved(new, pid) <=> (PlateObserved(old, pid) \/ pid \in S)
                      /\ Cardinality(Unobserved(new)) = Cardinality(Unobserved(old)) - Cardinality(Unobserved(old) \cap S)
                      /\ new.rows = old.rows /\ new.val = old.val]_vars
\* nothing but set_observed ever changes a stored value; nothing changes conditions or plate assignment of a surviving row
ValuesFrozen == [][\A h \in Handles :
                    (scr[h].live /\ scr'[h].live /\ scr'[h].rows = scr[h].rows /\ Len(hist') > Len(hist)
                     /\ hist'[Len(hist')].op \notin {"set_observed", "load"}) => scr'[h].val = scr[h].val]_vars
MaskMonotoneUnderReveal == [][\A h \in Handles :
                    (Len(hist') > Len(hist) /\ hist'[Len(hist')].op = "reveal") =>
                        \A x \in Pos(scr[h]) : scr[h].mask[x] => scr'[h].mask[x]]_vars

(* ---------------- C03: identifiers stay stable through the lifecycle ---------------- *)
\* every live screen of the lineage carries the mappings of the prepared screen
IdStable == \A s \in AllScreens : s.live => (s.smap = Prepared.smap /\ s.tmap = Prepared.tmap)
\* hence equal names get equal ids everywhere, and the embedding sizes never shrink
SameNameSameId == \A s1, s2 \in AllScreens : (s1.live /\ s2.live) =>
    \A x \in Pos(s1), y \in Pos(s2) :
        /\ SampleName(s1, x) = SampleName(s2, y) => SampleIds(s1)[x] = SampleIds(s2)[y]
        /\ \A a, c \in 1..Arity : Treat(s1, x)[a] = Treat(s2, y)[c] => TreatIds(s1)[x][a] = TreatIds(s2)[y][c]
SpaceNeverShrinks == \A s \in AllScreens : s.live =>
    /\ NUniqueTreatments(s.tmap) >= NUniqueTreatments(Prepared.tmap)
    /\ NUniqueSamples(s.smap) >= NUniqueSamples(Prepared.smap)
    /\ \A x \in Pos(s) : SampleIds(s)[x] < NUniqueSamples(s.smap) /\ \A a \in 1..Arity : TreatIds(s)[x][a] < NUniqueTreatments(s.tmap)

(* ---------------- C02: persistence is lossless ---------------- *)
\* a load yields the saved screen in every observable (Proj compares all of them), and is a fixed point
LoadIsSaved == [][\A h \in Handles : (Len(hist') > Len(hist) /\ hist'[Len(hist')].op = "load" /\ hist'[Len(hist')].h = h)
                     => Proj(scr'[h]) = Proj(files[hist'[Len(hist')].p])]_vars
SaveIsCurrent == [][\A p \in Paths : (Len(hist') > Len(hist) /\ hist'[Len(hist')].op = "save" /\ hist'[Len(hist')].p = p)
                     => Proj(files'[p]) = Proj(scr[hist'[Len(hist')].h])]_vars

(* ---------------- C11 (hold-out clauses) ---------------- *)
HoldoutPartition == [][(Len(hist') > Len(hist) /\ hist'[Len(hist')].op = "split") =>
    LET old == scr["train"]  tr == scr'["train"]  te == scr'["test"] IN
    /\ Len(tr.rows) + Len(te.rows) = Len(old.rows)
    /\ \A r \in 1..NR : Cardinality({x \in Pos(tr) : tr.rows[x] = r}) + Cardinality({x \in Pos(te) : te.rows[x] = r})
                         = Cardinality({x \in Pos(old) : old.rows[x] = r})
    /\ \A x \in Pos(te) : te.mask[x]
    /\ \A pid \in 0..NPlates(old) - 1 :
          LET name == PlateEnc(old).mapping[pid + 1][1]
              taken == Cardinality({x \in Pos(te) : PlateName(te, x) = name}) IN
          taken = IF PlateObserved(old, pid) THEN 0 ELSE Need(Cardinality(PlatePos(old, pid)))]_vars

(* ---------------- export of explored behaviours (instrument B) ---------------- *)
ExportPath == Export => PrintT(ToJson([tag |-> "path", hist |-> hist]))
=============================================================================
