----------------------------- MODULE KPerSample -----------------------------
(* C16.  KPerSamplePlatePolicy.filter_eligible_plates as called from select_next_plate,              *)
(* transcribed: remaining = unobserved plates not in the batch; per-sample remaining counts; samples  *)
(* with fewer than k remaining plates are "insufficient"; per-sample counts over the batch plates     *)
(* (in plate-id order, as select_next_plate builds the list); the sample in progress is the last one  *)
(* in that order with fewer than k plates.  Next: any allowed plate may be the best-scoring one.      *)
EXTENDS Naturals, Integers, Sequences, FiniteSets, TLC, Json

CONSTANTS NPlates,        \* plates are 0..NPlates-1 (plate ids)
          Samples,        \* set of sample ids
          Ks,             \* values of k explored
          Export

VARIABLES k, sampleOf, observed,   \* configuration, chosen in Init
          batch,                   \* sequence of selected plate ids (selection order)
          flow                     \* "prospective": batch plates stay unobserved until the batch is run in the laboratory;
                                   \* "retrospective": every selected plate is revealed before the next one is chosen
vars == <<k, sampleOf, observed, batch, flow>>

Plates == 0..NPlates - 1
InBatch(b) == {b[x] : x \in 1..Len(b)}
Remaining(b) == {p \in Plates : ~observed[p] /\ p \notin InBatch(b)}
RemainCount(b, s) == Cardinality({p \in Remaining(b) : sampleOf[p] = s})
BatchCount(b, s) == Cardinality({p \in InBatch(b) : sampleOf[p] = s})
Insufficient(b) == {s \in Samples : RemainCount(b, s) > 0 /\ RemainCount(b, s) < k}
\* dict insertion order of n_plates_already_selected_per_sample: first occurrence while walking the batch plates by id
Incomplete(b) == {s \in Samples : BatchCount(b, s) > 0 /\ BatchCount(b, s) < k}
FirstId(b, s) == CHOOSE p \in InBatch(b) : sampleOf[p] = s /\ \A q \in InBatch(b) : sampleOf[q] = s => p <= q
Chosen(b) == IF Incomplete(b) = {} THEN -1
             ELSE CHOOSE s \in Incomplete(b) : \A t \in Incomplete(b) : FirstId(b, t) <= FirstId(b, s)

Allowed(b) == IF Chosen(b) # -1
              THEN {p \in Remaining(b) : sampleOf[p] = Chosen(b)}
              ELSE {p \in Remaining(b) : sampleOf[p] \notin Insufficient(b) /\ BatchCount(b, sampleOf[p]) = 0}

Init == /\ k \in Ks
        /\ sampleOf \in [Plates -> Samples]
        /\ observed \in [Plates -> BOOLEAN]
        /\ batch = << >>
        /\ flow \in {"prospective", "retrospective"}

Select(p) == /\ p \in Allowed(batch)
             /\ batch' = Append(batch, p)
             /\ observed' = IF flow = "retrospective" THEN [observed EXCEPT ![p] = TRUE] ELSE observed
             /\ UNCHANGED <<k, sampleOf, flow>>
SelectAny == \E p \in Plates : Select(p)
Next == SelectAny
Spec == Init /\ [][Next]_vars

(* ---- the clauses of C16 ---- *)
AllowedSubset == Allowed(batch) \subseteq Remaining(batch)
InProgressOnly == \A s \in Samples : (BatchCount(batch, s) \in 1..k - 1) =>
                     /\ \A p \in Allowed(batch) : sampleOf[p] = s
                     /\ Allowed(batch) # {}
OpenOnlyIfKRemain == \A p \in Allowed(batch) : BatchCount(batch, sampleOf[p]) = 0 => RemainCount(batch, sampleOf[p]) >= k
AtMostOneIncomplete == Cardinality(Incomplete(batch)) <= 1
ZeroOrK == (Len(batch) % k = 0) => \A s \in Samples : BatchCount(batch, s) \in {0, k}
NeverMoreThanK == \A s \in Samples : BatchCount(batch, s) <= k

ExportState == Export =>
    PrintT(ToJson([tag |-> "kps", k |-> k, sampleOf |-> [p \in 1..NPlates |-> sampleOf[p - 1]],
                   observed |-> [p \in 1..NPlates |-> observed[p - 1]], batch |-> batch, flow |-> flow,
                   allowed |-> Allowed(batch)]))
=============================================================================
