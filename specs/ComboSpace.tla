--------------------------------- MODULE ComboSpace ---------------------------------
(* The full combinatoric space of a screen (batchie/models/main.py, generate_full_combinatoric_space), over which correlation_matrix
   compares samples: one unobserved experiment per combination of `arity` DISTINCT entries of the treatment table (an entry is a
   (name, dose) pair with its id), all for one requested sample, on one artificial plate.  Not behind one of the listed properties;
   specified because "every combination once, with the table's ids" is the kind of statement a test on one small screen cannot settle.

   Entries are positions 1..T in the table.  Gen is what the code does (itertools.combinations: lexicographic in table order); the
   operators below say what a user relies on (the set, not the order).  TLC checks them for T <= MaxT and arity 1..MaxA.                  *)
EXTENDS Naturals, Sequences, FiniteSets, TLC

CONSTANTS MaxT, MaxA
VARIABLES T, ar, out, phase
vars == <<T, ar, out, phase>>

RECURSIVE Choose(_, _)
Choose(n, k) == IF k = 0 THEN 1 ELSE IF n < k THEN 0 ELSE Choose(n - 1, k - 1) + Choose(n - 1, k)
Increasing(t) == \A i \in 1..(Len(t) - 1) : t[i] < t[i + 1]
Tuples(n, k) == {t \in [1..k -> 1..n] : Increasing(t)}
\* lexicographic order on tuples of equal length
Lt(a, b) == \E i \in 1..Len(a) : a[i] < b[i] /\ \A j \in 1..(i - 1) : a[j] = b[j]
RECURSIVE SortLex(_)
SortLex(S) == IF S = {} THEN << >> ELSE LET m == CHOOSE x \in S : \A y \in S \ {x} : Lt(x, y) IN <<m>> \o SortLex(S \ {m})

Init == T \in 0..MaxT /\ ar \in 1..MaxA /\ out = << >> /\ phase = 0
Gen == phase = 0 /\ phase' = 1 /\ out' = SortLex(Tuples(T, ar)) /\ UNCHANGED <<T, ar>>
Next == Gen
Spec == Init /\ [][Next]_vars
------------------------------------------------------------------------------------------------------------------------
Rows(o) == {o[i] : i \in 1..Len(o)}
AsSet(t) == {t[i] : i \in 1..Len(t)}
\* what is relied on, as predicates of a produced sequence o of tuples (used on `out` here and on what the real function returned in the trace module)
DistinctEntries(o, k) == \A i \in 1..Len(o) : Cardinality(AsSet(o[i])) = k
EveryCombinationOnce(o, n, k) == /\ Len(o) = Choose(n, k)
                                 /\ {AsSet(o[i]) : i \in 1..Len(o)} = {S \in SUBSET (1..n) : Cardinality(S) = k}
TableOrder(o, n, k) == o = SortLex(Tuples(n, k))                   \* (drift only: the order of the rows is not relied on)

InvDistinct == phase = 1 => DistinctEntries(out, ar)
InvEveryOnce == phase = 1 => EveryCombinationOnce(out, T, ar)
InvCount == phase = 1 => Cardinality(Tuples(T, ar)) = Choose(T, ar)
=============================================================================
