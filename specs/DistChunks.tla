----------------------------- MODULE DistChunks -----------------------------
(* C07.  (1) the chunk arithmetic of get_lower_triangular_indices_chunk, transcribed with its      *)
(* remainder handling; (2) the assembly machine of ChunkedDistanceMatrix: chunk results are         *)
(* combined in any order, with repetition, into an accumulator that suppresses duplicates, and the  *)
(* accumulator densifies iff it holds every pair.                                                   *)
EXTENDS Naturals, Integers, Sequences, FiniteSets, TLC, Json

CONSTANTS MaxN,      \* number of posterior samples explored: 0..MaxN
          MaxChunks, \* chunk counts explored: 1..MaxChunks
          MaxLoads,  \* length of the combination history
          Arith,     \* TRUE: only the arithmetic (single state per (n,k)); FALSE: the assembly machine
          Export

VARIABLES n, k,       \* configuration
          acc,        \* accumulator: sequence of <<i, j, v>> in insertion order (<< >> before the first load)
          order,      \* history: chunk indices combined so far
          result      \* [kind |-> "none" | "refused" | "dense", m |-> [0..n-1 -> [0..n-1 -> value]]]

vars == <<n, k, acc, order, result>>

NPairs(m) == (m * (m - 1)) \div 2

\* row-major lower triangle: (1,0) (2,0) (2,1) (3,0) ...   (lower_triangular_indices)
RECURSIVE PairsUpTo(_)
PairsUpTo(m) == IF m <= 1 THEN << >>
                ELSE PairsUpTo(m - 1) \o [j \in 1..m - 1 |-> <<m - 1, j - 1>>]

\* start/end index of chunk c, exactly as the code computes them
Start(m, kk, c) == LET size == NPairs(m) \div kk
                       rem == NPairs(m) % kk
                   IN IF c < rem THEN c * size + c ELSE c * size + rem
End(m, kk, c) == LET size == NPairs(m) \div kk
                     rem == NPairs(m) % kk
                 IN IF c < rem THEN c * size + size + c + 1 ELSE c * size + size + rem

\* consume(g, start); list(islice(g, end - start))
Chunk(m, kk, c) == SubSeq(PairsUpTo(m), Start(m, kk, c) + 1, End(m, kk, c))

Range(s) == {s[x] : x \in 1..Len(s)}

(* --- properties of the arithmetic --- *)
Disjoint(m, kk) == \A c, d \in 0..kk - 1 : c # d => Range(Chunk(m, kk, c)) \cap Range(Chunk(m, kk, d)) = {}
NoRepeat(m, kk) == \A c \in 0..kk - 1 : Cardinality(Range(Chunk(m, kk, c))) = Len(Chunk(m, kk, c))
Cover(m, kk) == UNION {Range(Chunk(m, kk, c)) : c \in 0..kk - 1} = {<<a, b>> : a \in 0..m - 1, b \in 0..m - 1} \cap
                                                                    {p \in (0..m - 1) \X (0..m - 1) : p[1] > p[2]}
Balanced(m, kk) == \A c, d \in 0..kk - 1 : Len(Chunk(m, kk, c)) - Len(Chunk(m, kk, d)) \in {-1, 0, 1}
Contiguous(m, kk) == /\ Start(m, kk, 0) = 0 /\ End(m, kk, kk - 1) = NPairs(m)
                     /\ \A c \in 0..kk - 2 : End(m, kk, c) = Start(m, kk, c + 1)

(* --- the assembly machine --- *)
\* the value the metric assigns to the pair (i,j): an opaque token, distinct per pair
Val(i, j) == i * 100 + j + 1

ChunkEntries(m, kk, c) == [x \in 1..Len(Chunk(m, kk, c)) |->
                              <<Chunk(m, kk, c)[x][1], Chunk(m, kk, c)[x][2], Val(Chunk(m, kk, c)[x][1], Chunk(m, kk, c)[x][2])>>]

Keys(a) == {<<a[x][1], a[x][2]>> : x \in 1..Len(a)}

\* ChunkedDistanceMatrix.combine: copy self, then append the entries of `other` whose (row, col) is absent
RECURSIVE CombineSeq(_, _)
CombineSeq(a, other) ==
    IF other = << >> THEN a
    ELSE LET e == Head(other) IN
         CombineSeq(IF <<e[1], e[2]>> \in Keys(a) THEN a ELSE Append(a, e), Tail(other))

Dense(a, m) == [r \in 0..m - 1 |-> [c \in 0..m - 1 |->
                  IF \E x \in 1..Len(a) : (a[x][1] = r /\ a[x][2] = c) \/ (a[x][1] = c /\ a[x][2] = r)
                  THEN LET x == CHOOSE x \in 1..Len(a) : (a[x][1] = r /\ a[x][2] = c) \/ (a[x][1] = c /\ a[x][2] = r)
                       IN a[x][3]
                  ELSE 0]]

Init == /\ n \in 0..MaxN /\ k \in 1..MaxChunks
        /\ acc = << >> /\ order = << >> /\ result = [kind |-> "none", m |-> << >>]

\* concat(): the first file becomes the accumulator as it is, every later file is combined into it
Load(c) == /\ ~Arith /\ result.kind = "none" /\ Len(order) < MaxLoads
           /\ acc' = IF order = << >> THEN ChunkEntries(n, k, c) ELSE CombineSeq(acc, ChunkEntries(n, k, c))
           /\ order' = Append(order, c)
           /\ UNCHANGED <<n, k, result>>

Densify == /\ ~Arith /\ result.kind = "none" /\ order # << >>
           /\ result' = IF Len(acc) = NPairs(n) THEN [kind |-> "dense", m |-> Dense(acc, n)]
                                                 ELSE [kind |-> "refused", m |-> << >>]
           /\ UNCHANGED <<n, k, acc, order>>

LoadAny == \E c \in 0..k - 1 : Load(c)
Next == LoadAny \/ Densify
Spec == Init /\ [][Next]_vars

(* --- invariants --- *)
ArithOK == /\ Disjoint(n, k) /\ NoRepeat(n, k) /\ Cover(n, k) /\ Balanced(n, k) /\ Contiguous(n, k)

\* the single-chunk result every assembly must reproduce
Reference(m) == [r \in 0..m - 1 |-> [c \in 0..m - 1 |-> IF r = c THEN 0 ELSE IF r > c THEN Val(r, c) ELSE Val(c, r)]]

AccNoDuplicates == Cardinality(Keys(acc)) = Len(acc)
DenseIffAllChunksSeen ==
    result.kind # "none" => ((result.kind = "dense") <=> ({c \in 0..k - 1 : Len(Chunk(n, k, c)) > 0} \subseteq
                                                    {order[x] : x \in 1..Len(order)}))
DenseIsReference == result.kind = "dense" =>
                       /\ result.m = Reference(n)                                       \* order- and repetition-independent
                       /\ \A r, c \in 0..n - 1 : result.m[r][c] = result.m[c][r]        \* symmetric
                       /\ \A r \in 0..n - 1 : result.m[r][r] = 0                        \* zero diagonal

ExportArith == (Export /\ Arith) =>
    PrintT(ToJson([tag |-> "chunks", n |-> n, k |-> k, chunks |-> [c \in 1..k |-> Chunk(n, k, c - 1)]]))
ExportAsm == (Export /\ ~Arith /\ result.kind # "none") =>
    PrintT(ToJson([tag |-> "assembly", n |-> n, k |-> k, order |-> order,
                   refused |-> (result.kind = "refused"),
                   dense |-> IF result.kind = "refused" THEN << >>
                             ELSE [r \in 1..n |-> [c \in 1..n |-> result.m[r - 1][c - 1]]]]))
=============================================================================
