------------------------------- MODULE Sampling -------------------------------
(* C17.  batchie.sampling.sample as a small-step machine: reset, set_rng, b burn-in steps, then      *)
(* n*t steps with the state recorded after every t-th; the variational branch asks once for n.       *)
EXTENDS Naturals, Integers, Sequences, TLC, Json

CONSTANTS MaxB, MaxT, MaxN, Export

VARIABLES kind,            \* "mcmc" | "vi"
          b, t, n,         \* burn-in, thinning, requested number of samples
          pc, i,
          steps,           \* steps the model has taken since its last reset
          recorded,        \* step counts at which the state was recorded (holder contents)
          nreset, nsetrng, \* how often reset_model / set_rng were called
          asked            \* num_samples requests made to a variational model
vars == <<kind, b, t, n, pc, i, steps, recorded, nreset, nsetrng, asked>>

Init == /\ kind \in {"mcmc", "vi"} /\ b \in 0..MaxB /\ t \in 1..MaxT /\ n \in 1..MaxN
        /\ pc = "reset" /\ i = 0 /\ steps = 0 /\ recorded = << >> /\ nreset = 0 /\ nsetrng = 0 /\ asked = << >>

\* the two preliminaries (the statement fixes no order between them): the model is reset and handed its generator,
\* each exactly once, before the first step
AfterPre(r, g) == IF r = 1 /\ g = 1 THEN (IF kind = "mcmc" THEN "burn" ELSE "visample") ELSE "reset"
Reset == /\ pc = "reset" /\ nreset = 0 /\ steps' = 0 /\ nreset' = 1
         /\ pc' = AfterPre(1, nsetrng)
         /\ UNCHANGED <<kind, b, t, n, i, recorded, nsetrng, asked>>
SetRng == /\ pc = "reset" /\ nsetrng = 0 /\ nsetrng' = 1
          /\ pc' = AfterPre(nreset, 1)
          /\ UNCHANGED <<kind, b, t, n, i, steps, recorded, nreset, asked>>
BurnStep == /\ pc = "burn" /\ i < b
            /\ steps' = steps + 1 /\ i' = i + 1
            /\ UNCHANGED <<kind, b, t, n, pc, recorded, nreset, nsetrng, asked>>
BurnDone == /\ pc = "burn" /\ i = b /\ i' = 0 /\ pc' = "loop"
            /\ UNCHANGED <<kind, b, t, n, steps, recorded, nreset, nsetrng, asked>>
Step == /\ pc = "loop" /\ i < n * t
        /\ steps' = steps + 1 /\ i' = i + 1
        /\ pc' = IF (i + 1) % t = 0 THEN "record" ELSE "loop"
        /\ UNCHANGED <<kind, b, t, n, recorded, nreset, nsetrng, asked>>
Record == /\ pc = "record" /\ recorded' = Append(recorded, steps) /\ pc' = "loop"
          /\ UNCHANGED <<kind, b, t, n, i, steps, nreset, nsetrng, asked>>
LoopDone == /\ pc = "loop" /\ i = n * t /\ pc' = "done"
            /\ UNCHANGED <<kind, b, t, n, i, steps, recorded, nreset, nsetrng, asked>>
VISample == /\ pc = "visample" /\ asked' = Append(asked, n)
            /\ recorded' = [x \in 1..n |-> 0] /\ pc' = "done"
            /\ UNCHANGED <<kind, b, t, n, i, steps, nreset, nsetrng>>
Next == Reset \/ SetRng \/ BurnStep \/ BurnDone \/ Step \/ Record \/ LoopDone \/ VISample
Spec == Init /\ [][Next]_vars

(* ---- C17 ---- *)
Schedule == (pc = "done" /\ kind = "mcmc") =>
               /\ recorded = [x \in 1..n |-> b + x * t]
               /\ steps = b + n * t
               /\ nreset = 1 /\ nsetrng = 1
VariationalOnce == (pc = "done" /\ kind = "vi") => asked = << n >> /\ Len(recorded) = n /\ nreset = 1 /\ nsetrng = 1
Complete == pc = "done" => Len(recorded) = n
NeverOverfull == Len(recorded) <= n
ResetBeforeAnyStep == steps > 0 => nreset = 1

ExportDone == (Export /\ pc = "done") =>
    PrintT(ToJson([tag |-> "sched", kind |-> kind, b |-> b, t |-> t, n |-> n, recorded |-> recorded, steps |-> steps]))
=============================================================================
