------------------------------ MODULE Construct ------------------------------
(* C12, constructor and set_observed clauses.  A screen is built from N rows with given plate tokens  *)
(* in one of three ways: "mask" (observations and an explicit mask), "nomask" (observations only),    *)
(* "noobs" (neither).  Expected: a plate with mixed status is rejected, wherever its rows sit;         *)
(* observations without a mask are all observed; no observations are all unobserved with value 0.     *)
(* Then Screen.set_observed(sel, vals) on an arbitrary selection stores exactly the given values at    *)
(* exactly those rows and marks exactly those rows observed (in addition to the already observed).     *)
EXTENDS Naturals, Sequences, FiniteSets, TLC, Json

CONSTANTS N, PlateToks, Export
VARIABLES plate, maskin, mode, sel, phase
vars == <<plate, maskin, mode, sel, phase>>

Mixed(pl, mk) == \E x, y \in 1..Len(pl) : pl[x] = pl[y] /\ mk[x] # mk[y]
\* value tokens: row x holds token x when observations are given, 0 (the float 0.0) when not
Built(pl, mk, md) ==
    CASE md = "mask" -> IF Mixed(pl, mk) THEN [ok |-> FALSE, mask |-> << >>, val |-> << >>]
                        ELSE [ok |-> TRUE, mask |-> mk, val |-> [x \in 1..Len(pl) |-> x]]
      [] md = "nomask" -> [ok |-> TRUE, mask |-> [x \in 1..Len(pl) |-> TRUE], val |-> [x \in 1..Len(pl) |-> x]]
      [] md = "noobs" -> [ok |-> TRUE, mask |-> [x \in 1..Len(pl) |-> FALSE], val |-> [x \in 1..Len(pl) |-> 0]]
\* set_observed: new value of row x is token 100 + x
AfterSet(b, sl) == [ok |-> TRUE, mask |-> [x \in 1..Len(b.mask) |-> b.mask[x] \/ x \in sl],
                    val |-> [x \in 1..Len(b.val) |-> IF x \in sl THEN 100 + x ELSE b.val[x]]]

Init == /\ plate \in [1..N -> PlateToks] /\ maskin \in [1..N -> BOOLEAN] /\ mode \in {"mask", "nomask", "noobs"}
        /\ (mode # "mask" => maskin = [x \in 1..N |-> TRUE])
        /\ sel \in SUBSET (1..N) /\ phase = 0
        /\ (sel # {} => mode = "mask")          \* set_observed explored on explicitly masked screens
Compute == phase = 0 /\ phase' = 1 /\ UNCHANGED <<plate, maskin, mode, sel>>
Next == Compute

B == Built(plate, maskin, mode)
RejectIffMixed == (phase = 1 /\ mode = "mask") => (B.ok <=> ~Mixed(plate, maskin))
AcceptedIsAtomic == (phase = 1 /\ B.ok) => ~Mixed(plate, B.mask)
SetExact == (phase = 1 /\ B.ok) =>
    LET a == AfterSet(B, sel) IN
    /\ \A x \in 1..N : a.mask[x] <=> (B.mask[x] \/ x \in sel)
    /\ \A x \in 1..N : x \notin sel => a.val[x] = B.val[x]
ExportCase == (Export /\ phase = 1) =>
    PrintT(ToJson([tag |-> "construct", plate |-> plate, maskin |-> maskin, mode |-> mode, sel |-> sel,
                   built |-> B, after |-> IF B.ok THEN AfterSet(B, sel) ELSE B]))
=============================================================================
