"""Batched trace validation: write the traces as one JSON array, let the trace specification pick a
trace id in its initial state, and read one verdict per trace."""
import json
from harness import tlc


def validate(ctx, module, traces, decide="Decide", next_="Next", init="Init", constants=None, workers=16, chunk=4000,
             invariants=(), note="trace validation", dfs=False, extra_files=None, env=None, constraint=None):
    """returns [(index, failing clause)] of the rejected traces (empty = all accepted).
    `decide` is an invariant of the trace module that prints the verdict (used for one-state traces);
    multi-step trace modules print accept/fail from their actions and pass decide=None."""
    bad = []
    for off in range(0, len(traces), chunk):
        part = traces[off:off + chunk]
        invs = list(invariants) + ([decide] if decide else [])
        files = {"traces.json": json.dumps(part)}
        files.update(extra_files or {})
        r = ctx.tlc(module, tlc.cfg(init=init, next_=next_, invariants=invs, constants=constants, constraint=constraint),
                    note="%s (%d traces)" % (note, len(part)),
                    env=dict({"TRACE_FILE": "traces.json", "FIXTURE_FILE": "fixture.json"}, **(env or {})),
                    files=files, workers=workers, dfs=dfs)
        if r.violation:
            raise tlc.TLCError("trace module %s reported %s:\n%s" % (module, r.violation, r.violation_text[:2000]))
        acc = {x["tid"] for x in r.by_tag("accept")}
        fails = {}
        for x in r.by_tag("fail"):
            fails.setdefault(x["tid"], x["clause"])
        for i in range(len(part)):
            if (i + 1) not in acc:
                bad.append((off + i, fails.get(i + 1, "(no clause named: trace not fully consumed)")))
        ctx.traces += len(part) - sum(1 for i in range(len(part)) if (i + 1) not in acc)
    return bad


def selftest(ctx, module, trace, corrupt, **kw):
    """Binding self-test: corrupt one logged field of an ACCEPTED trace (or drop one event) and require rejection.
    A corrupted trace that is still accepted means the trace specification does not constrain that field: machinery failure."""
    import copy
    t2 = copy.deepcopy(trace)
    what = corrupt(t2)
    if what is None:
        return
    before = ctx.traces
    bad = validate(ctx, module, [t2], note="binding self-test", **kw)
    ctx.traces = before
    if not bad:
        raise tlc.TLCError("binding self-test failed: %s accepted a trace after: %s" % (module, what))
    ctx.extra.setdefault("binding_selftest", []).append({"module": module, "corruption": what, "rejected_at": bad[0][1]})
