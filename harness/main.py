"""Entry point:  ./check <ID> [--tier quick|thorough] [--replay PATH]

exit 0  property held on everything explored (KNOWN-FINDING lines may be printed)
exit 1  a line `VIOLATION property=<id> replay=<path>` was printed
exit 2  machinery failure (TLC error, vacuity guard, binding self-test) - never a property verdict
"""
import argparse, hashlib, importlib, json, logging, os, sys, time, traceback, warnings

logging.disable(logging.CRITICAL)      # batchie logs through the logging module; keep check output to verdict lines
warnings.filterwarnings("ignore")

ROOT = os.path.dirname(os.path.dirname(os.path.abspath(__file__)))
sys.path.insert(0, ROOT)
from harness import tlc  # noqa: E402


class Ctx:
    def __init__(self, pid, tier, seed, replay=None):
        self.pid, self.tier, self.seed, self.replay = pid, tier, seed, replay
        self.quick = tier == "quick"
        self.t0 = time.time()
        self.states = 0
        self.transitions = 0
        self.traces = 0
        self.evaluations = 0
        self.samples = []
        self.tlc_runs = []
        self.extra = {}
        self.assumptions = []
        self.violations = 0
        self.known_hits = {}
        self.exhaustive = None
        with open(os.path.join(ROOT, "known_findings.json")) as fh:
            self.findings = [f for f in json.load(fh)["findings"] if f["property"] == pid]

    # ---- TLC bookkeeping ------------------------------------------------------------------
    def tlc(self, module, cfg, note="", count=True, **kw):
        r = tlc.run(module, cfg, **kw)
        if count:
            self.states += r.distinct
            self.transitions += r.generated
        self.tlc_runs.append({"module": module, "note": note, "generated": r.generated, "distinct": r.distinct,
                              "depth": r.depth, "wall_s": round(r.wall, 2), "violation": r.violation,
                              "args": r.cmd.split("tlc2.TLC", 1)[-1].strip()[:300]})
        return r

    def need_coverage(self, r, actions):
        """Vacuity guard: every named action must have been taken at least once."""
        missing = [a for a in actions if r.coverage.get(a, (0, 0))[1] == 0 and r.coverage.get(a + "Any", (0, 0))[1] == 0]
        if missing:
            raise tlc.TLCError("vacuity guard: actions never taken: %s" % missing)

    def sample(self, obj, cap=6):
        if len(self.samples) < cap:
            self.samples.append(obj)

    # ---- verdicts ----------------------------------------------------------------------------
    def violation(self, what, replay_obj):
        self.violations += 1
        os.makedirs(os.path.join(ROOT, "replays"), exist_ok=True)
        blob = json.dumps({"property": self.pid, "what": what, "replay": replay_obj}, indent=1, sort_keys=True,
                          default=str)
        path = os.path.join(ROOT, "replays", "%s-%s.json" % (self.pid, hashlib.sha1(blob.encode()).hexdigest()[:12]))
        with open(path, "w") as fh:
            fh.write(blob)
        if self.violations <= 20:
            print("VIOLATION property=%s replay=%s" % (self.pid, path))
            print("  what: %s" % what[:600])
        sys.stdout.flush()

    def finding(self, key, what, replay_obj):
        """A divergence whose *class* is `key`.  Listed as status=known -> KNOWN-FINDING; else VIOLATION."""
        for f in self.findings:
            if f["key"] == key and f["status"] == "known":
                if key not in self.known_hits:
                    print("KNOWN-FINDING: property=%s %s [%s]" % (self.pid, f["what"], key))
                self.known_hits[key] = self.known_hits.get(key, 0) + 1
                return
        self.violation("[%s] %s" % (key, what), replay_obj)

    def finding_or_violation(self, focus, fx, w, clause):
        """a rejected lifecycle history: classified by the operation at which it was rejected"""
        from harness.lifecycle import _ops
        ops = _ops(w)
        what = "fixture %s: real history rejected by TraceLifecycle(%s) at clause '%s'; operations: %s" % (
            fx.name, focus, clause, json.dumps(ops)[:700])
        self.violation(what, {"kind": "history", "fixture": fx.name, "ops": ops, "clause": clause})

    def is_known(self, key):
        return any(f["key"] == key and f["status"] == "known" for f in self.findings)

    # ---- evidence --------------------------------------------------------------------------
    def write_evidence(self, status="ok"):
        cov = {
            "states": max(self.states, 0), "transitions": max(self.transitions, 0),
            "traces_validated_against_impl": self.traces,
            "samples": self.samples or ["(none recorded)"],
            "evaluations": self.evaluations,
            "tlc_runs": self.tlc_runs,
            "known_findings_hit": self.known_hits,
            "status": status,
        }
        if self.exhaustive is not None:
            cov["exhaustive"] = self.exhaustive
        cov.update(self.extra)
        ev = {"property_id": self.pid, "tier": self.tier, "seed": self.seed, "level": "model_checking",
              "coverage": cov, "assumptions": self.assumptions, "wall_s": round(time.time() - self.t0, 2),
              "violations": self.violations}
        if self.replay:
            return          # re-running one recorded counterexample is not a check of the property: the evidence file stays as it is
        evdir = os.environ.get("VERIF_EVIDENCE_DIR") or os.path.join(ROOT, "evidence")      # (seeded-change runs write theirs elsewhere)
        if not self.pid.startswith("C"):
            evdir = os.path.join(os.path.dirname(evdir.rstrip("/")), "evidence-extras")       # checks of behaviour beyond the listed properties (X01 ...): not evidence of a property
        os.makedirs(evdir, exist_ok=True)
        with open(os.path.join(evdir, self.pid + ".json"), "w") as fh:
            json.dump(ev, fh, indent=1, default=str)


def main():
    ap = argparse.ArgumentParser()
    ap.add_argument("pid")
    ap.add_argument("--tier", default=os.environ.get("VERIF_TIER", "quick"), choices=["quick", "thorough"])
    ap.add_argument("--replay")
    a = ap.parse_args()
    seed = int(os.environ.get("VERIF_SEED", "0") or 0)
    ctx = Ctx(a.pid, a.tier, seed, a.replay)
    try:
        mod = importlib.import_module("harness.drivers." + a.pid.lower())
        if a.replay:
            with open(a.replay) as fh:
                rp = json.load(fh)
            mod.replay(ctx, rp["replay"])
        else:
            mod.run(ctx)
    except tlc.TLCError as e:
        if ctx.violations:
            ctx.write_evidence("violation")
            print("FAIL %s violations=%d (then: %s)" % (a.pid, ctx.violations, str(e)[:200]))
            sys.exit(1)
        print("MACHINERY-FAILURE property=%s: %s" % (a.pid, e))
        ctx.write_evidence("machinery-failure")
        sys.exit(2)
    except Exception as e:  # noqa: BLE001
        tb = traceback.extract_tb(e.__traceback__)
        repo = os.environ.get("VERIF_REPO", "/repo")
        in_repo = [f for f in tb if f.filename.startswith(repo + "/")]
        traceback.print_exc()
        if in_repo:
            # the exception was raised INSIDE the code under test, at a call the driver makes on the assumption that it returns
            # (it does on the unchanged tree): that is an observable misbehaviour, not a failure of the machinery
            f = in_repo[-1]
            ctx.violation("the code under test raised %s: %s at %s:%d (%s), where it returns on every explored input of the unchanged tree"
                          % (type(e).__name__, str(e)[:200], f.filename, f.lineno, f.name),
                          {"kind": "exception-in-code-under-test", "traceback": traceback.format_exc()[-3000:]})
            ctx.write_evidence("violation")
            print("FAIL %s (exception inside the code under test)" % a.pid)
            sys.exit(1)
        if ctx.violations:
            # violations of the property were already established and reported (each with its replay file) before the driver fell over
            # on the state they left behind: the verdict stands
            ctx.write_evidence("violation")
            print("FAIL %s violations=%d (the driver stopped early: %s after the reported violations)" % (a.pid, ctx.violations, type(e).__name__))
            sys.exit(1)
        print("MACHINERY-FAILURE property=%s: driver crashed" % a.pid)
        ctx.write_evidence("machinery-failure")
        sys.exit(2)
    ctx.write_evidence()
    print("%s %s tier=%s seed=%d states=%d transitions=%d impl_traces=%d violations=%d known=%s wall=%.1fs" % (
        "FAIL" if ctx.violations else "PASS", a.pid, a.tier, seed, ctx.states, ctx.transitions, ctx.traces,
        ctx.violations, dict(ctx.known_hits), time.time() - ctx.t0))
    sys.exit(1 if ctx.violations else 0)


if __name__ == "__main__":
    main()
