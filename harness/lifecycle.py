"""Shared conformance machinery for Lifecycle.tla / TraceLifecycle.tla (C02, C03, C12, hold-out part of C11)."""
import io, json, math, os, random, shutil, sys, tempfile
import numpy as np

from batchie.data import Screen, ExperimentSpace
from batchie import retrospective as R
from batchie.models.sparse_combo import SparseDrugComboMCMCSample
from harness.util import outcome, bits, Interner

# (every pool is listed in ascending order: token order = name order = id order, which the specification's ids rely on;
#  pool 3: names and doses whose textual concatenations coincide - "d" + "11.0" = "d1" + "1.0" - and names that are prefixes of each other)
#  names that differ only by a trailing blank are different names; pool 4 is wide: a dozen samples, ids with two digits)
SAMPLE_POOLS = [["", "A", "A ", "é"], ["HT-29", "MCF7 ", "mcf7-long-name", "中"], ["s0", "s1", "s10", "s2"], ["s", "s1", "s1.0", "s11"],
                ["c%02d" % i for i in range(13)]]
TREAT_POOLS = [["", "A", "A ", "zz"], ["5-FU", "Drug B", "drug", "é́"], ["d0", "d1", "d2", "d3"], ["d", "d1", "d1.0", "d11"], ["d0", "d1", "d2", "d3"]]
PLATE_POOLS = [["", "P", "P ", "p1"], ["plate 0", "plate 1", "plate 2", "plate-é"], ["0", "1", "2", "3"], ["1", "p", "p1", "p11"], ["0", "1", "2", "3"]]
# (dose 4 of pool 0 has no exact float32 form and is used by ONE condition that the hold-out can take out of the training rows,
#  while every other dose of that fixture is exact in float32)
DOSE_POOLS = [{0: -1.0, 1: 0.0, 2: 1.0, 3: 2.5, 4: 0.1}, {0: -5e-324, 1: -0.0, 2: 5e-324, 3: 1e-3}, {0: -2.0, 1: 0.0, 2: 0.1, 3: 1e300},
              {0: -1.0, 1: 0.0, 2: 1.0, 3: 11.0}, {0: -2.0, 1: 0.0, 2: 0.1, 3: 1e300}]
NEWVAL = 900
ABSENT_CTL = "￿-no-control"


class Fixture:
    """rows: list of (sample tok, [(name tok, dose tok), ...], plate tok, value tok)"""

    def __init__(self, rows, obs, ctl, fn, fd, zero=(), nan=(), pools=0, name="", tiny=(), explore=True, perm_samples=False):
        self.rows, self.obs, self.ctl, self.fn, self.fd = rows, list(obs), ctl, fn, fd
        self.zero, self.nan, self.name = list(zero), list(nan), name
        self.perm_samples = perm_samples      # the prepared screen is given a sample mapping whose ids are not in name order (a 3-cycle)
        self.explore = explore        # False: too many rows for TLC to explore; random histories only, validated by the trace specification
        self.tiny = list(tiny)        # value tokens stored as tiny NON-zero read-outs (a plate of them is an ordinary plate)
        self.arity = len(rows[0][1])
        self.sp, self.tp, self.pp, self.dp = SAMPLE_POOLS[pools % 5], TREAT_POOLS[pools % 5], PLATE_POOLS[pools % 5], DOSE_POOLS[pools % 5]
        assert all(p == sorted(p) for p in (self.sp, self.tp, self.pp)), "name pools must be ascending (token order = id order)"
        self.ctl_name = self.tp[ctl] if ctl < len(self.tp) else ABSENT_CTL
        self.valtok = Interner()
        self.vals = {}
        for r in rows:
            v = r[3]
            self.vals[v] = 0.0 if v in self.zero else (float("nan") if v in self.nan else (3e-10 * v if v in self.tiny else 0.05 + 0.0371 * v))
        self.bits2tok = {}
        for v, f in self.vals.items():
            self.bits2tok.setdefault(bits(f), v)
        self.theta = None
        self.predtok = Interner()
        self.pt = None

    # ---- concrete objects -------------------------------------------------------------------
    def newval(self, pos):           # value stored by set_observed at (1-based) position pos
        return 0.5 + 0.001 * pos

    def prepared(self):
        tn = np.array([[self.tp[c[0]] for c in r[1]] for r in self.rows], dtype=str)
        td = np.array([[self.dp[c[1]] for c in r[1]] for r in self.rows], dtype=float)
        sn = np.array([self.sp[r[0]] for r in self.rows], dtype=str)
        pn = np.array([self.pp[r[2]] for r in self.rows], dtype=str)
        obs = np.array([self.vals[r[3]] for r in self.rows], dtype=float)
        mask = np.array([r[2] in self.obs for r in self.rows], dtype=bool)
        kw = {}
        if self.perm_samples:
            present = sorted(set(sn.tolist()))
            ids = list(range(len(present)))
            ids = ids[1:] + ids[:1]                      # name k -> id k+1 (cyclic): a mapping a user may supply, constructible like any other
            kw["sample_mapping"] = (np.array(present, dtype=str), np.array(ids, dtype=int))
        s = Screen(treatment_names=tn, treatment_doses=td, sample_names=sn, plate_names=pn, observations=obs,
                   observation_mask=mask, control_treatment_name=self.ctl_name, **kw)
        if self.theta is None:
            sp = ExperimentSpace.from_screen(s)
            rng = np.random.default_rng(12345)
            nt, ns, D = sp.n_unique_treatments, sp.n_unique_samples, 2
            self.theta = SparseDrugComboMCMCSample(W=rng.normal(size=(ns, D)), W0=rng.normal(size=ns), V2=rng.normal(size=(nt, D)),
                                                   V1=rng.normal(size=(nt, D)), V0=rng.normal(size=nt), alpha=0.3, precision=2.0)
            self.pt = [self.predtok(b) for b in self._pred_bits(s)]
        return s

    def _pred_bits(self, s):
        if self.arity > 2:
            return ["n/a"] * s.size
        st, p = outcome(self.theta.predict_conditional_mean, s)
        if st != "ok":
            return ["raised:" + p[:40] + str(i) for i in range(s.size)]
        return [bits(x) for x in p]

    def to_json(self):
        return json.dumps({"rows": [{"s": r[0], "t": [list(c) for c in r[1]], "p": r[2], "v": r[3], "pt": self.pt[i]}
                                    for i, r in enumerate(self.rows)],
                           "arity": self.arity, "obs": self.obs, "ctl": self.ctl, "fn": self.fn, "fd": self.fd,
                           "zero": self.zero, "nan": self.nan, "newval": NEWVAL})

    # ---- projection of a real screen to tokens ----------------------------------------------
    def project(self, s):
        if s is None:
            return {"live": False}
        n = s.size
        stok = {v: i for i, v in enumerate(self.sp)}
        ttok = {v: i for i, v in enumerate(self.tp)}
        ttok.setdefault(self.ctl_name, self.ctl)
        ptok = {v: i for i, v in enumerate(self.pp)}

        def dtok(x):
            for k, v in self.dp.items():
                if v == x:
                    return k
            return 777

        def vtok(x, pos):
            b = bits(x)
            if b in self.bits2tok:
                return self.bits2tok[b]
            if x != x:
                return self.nan[0] if self.nan else 666
            k = int(round((x - 0.5) / 0.001)) if 0.5 < x < 0.6 else 0
            if k and b == bits(self.newval(k)):
                return NEWVAL + k
            return 555
        sp = ExperimentSpace.from_screen(s)
        n_un = sum(1 for p in s.plates if not p.is_observed)
        return {
            "live": True,
            "sample": [stok.get(str(x), 99) for x in s.sample_names],
            # (as many treatment slots as the object actually has: a derived object with another arity is a difference, not a crash of the harness)
            "treat": [[[ttok.get(str(s.treatment_names[i, a]), 99), dtok(float(s.treatment_doses[i, a]))] for a in range(int(np.shape(s.treatment_names)[1]))] for i in range(n)],
            "plate": [ptok.get(str(x), 99) for x in s.plate_names],
            "val": [vtok(float(x), i + 1) for i, x in enumerate(s.observations)],
            "mask": [bool(x) for x in s.observation_mask],
            "sids": [int(x) for x in s.sample_ids], "tids": s.treatment_ids.astype(int).tolist(), "pids": [int(x) for x in s.plate_ids],
            # a mapping is a set of (name -> id) entries: listed in a canonical order, so that two tables with the same entries are equal
            # whatever order they store them in (duplicated entries stay visible: nothing is de-duplicated)
            "smap": sorted([stok.get(str(a), 99), int(b)] for a, b in zip(*s.sample_mapping)),
            "tmap": sorted([ttok.get(str(a), 99), dtok(float(b)), int(c)] for a, b, c in zip(*s.treatment_mapping)),
            # (plate name, plate id) pairs as the rows carry them; Screen.plate_mapping itself is not an observable of these properties
            "pmap": sorted({(ptok.get(str(a), 99), int(b)) for a, b in zip(s.plate_names, s.plate_ids)}),
            "nut": int(sp.n_unique_treatments), "nus": int(sp.n_unique_samples),
            "pred": [self.predtok(b) for b in self._pred_bits(s)],
            "ctl": ttok.get(str(s.control_treatment_name), 99) if str(s.control_treatment_name) != ABSENT_CTL else self.ctl,
            "meta": {"n_unique_samples": int(s.n_unique_samples), "n_unique_treatments": int(s.n_unique_treatments),
                     "size": int(s.size), "n_plates": int(s.n_plates), "n_unobserved_plates": n_un,
                     "n_observed_plates": int(s.n_plates) - n_un},
        }


class ScriptedRng:
    """duck-typed generator whose choice() returns the rows the specification chose"""

    def __init__(self, sel0):
        self.sel, self.mismatch = set(sel0), None

    def choice(self, a, size=None, replace=True, **kw):
        a = np.asarray(a)
        pick = [int(x) for x in a if int(x) in self.sel]
        if size is not None and len(pick) != int(size):
            self.mismatch = "code asks for %s of %s, specification chose %s" % (size, a.tolist(), pick)
        return np.array(pick, dtype=int)


class RecordingRng:
    def __init__(self, seed):
        self.g, self.picked = np.random.default_rng(seed), []

    def choice(self, a, size=None, replace=True, **kw):
        r = self.g.choice(a, size, replace=replace, **kw)
        self.picked += [int(x) for x in np.atleast_1d(r)]
        return r


def _cli(main, argv):
    old = sys.argv
    sys.argv = ["prog"] + argv
    try:
        return outcome(main)
    finally:
        sys.argv = old


class World:
    """the real objects of one lineage"""

    def __init__(self, fx, tmp, paths=(1, 2)):
        self.fx, self.tmp = fx, tmp
        self.scr = {"train": fx.prepared(), "test": None}
        self.paths = list(paths)
        self.fproj = {p: {"live": False} for p in self.paths}
        self.events = []
        self.raised = None
        self.prepared = fx.project(self.scr["train"])

    def fn(self, p):
        return os.path.join(self.tmp, "f%d.h5" % p)

    def _file_proj(self, p):
        st, s = outcome(Screen.load_h5, self.fn(p))
        if st != "ok":
            self.raised = "load_h5 of file %d failed: %s" % (p, s)
            return {"live": False}
        return self.fx.project(s)

    def ids_of(self, pmap, e, key):
        """a request of an explored history (plate names + 'some id names no plate') as ids of the real object"""
        names, unk = {"S": ("Sn", "unk"), "P": ("Pn", None)}[key]
        if names not in e:
            return list(e[key])
        by_name = {int(t): int(i) for t, i in pmap}
        ids = sorted(by_name[t] for t in e[names] if t in by_name)
        if unk and e.get(unk):
            ids = [-1] + ids + [max([i for _, i in pmap] + [-1]) + 1]
        return ids

    def names_of(self, pmap, ids):
        """the plate-name tokens the requested plate ids stand for in the real object (and whether some id names no plate)"""
        by_id = {int(i): int(t) for t, i in pmap}
        return sorted({by_id[i] for i in ids if i in by_id}), any(i not in by_id for i in ids)

    def after(self):
        return {"train": self.fx.project(self.scr["train"]), "test": self.fx.project(self.scr["test"]),
                "files": [self.fproj[p] for p in self.paths]}

    def do(self, e, rng_seed=0):
        """perform one operation (dict with op and arguments); appends the event; returns False if the code raised unexpectedly"""
        fx, op = self.fx, e["op"]
        ev = dict(e)
        if op == "split":
            tr = self.scr["train"]
            if "sel" in e:
                rng = ScriptedRng([x - 1 for x in e["sel"]])
            else:
                rng = RecordingRng(rng_seed)
            st, r = outcome(R.create_plate_balanced_holdout_set_among_masked_plates, tr, fx.fn / fx.fd, rng)
            if st != "ok":
                self.raised = "hold-out split raised: " + r
            elif getattr(rng, "mismatch", None):
                self.raised = "hold-out split: " + rng.mismatch
            else:
                self.scr["train"], self.scr["test"] = r
                if "sel" not in e:
                    ev["sel"] = sorted(x + 1 for x in rng.picked)
        elif op == "reveal":
            s = self.scr[e["h"]]
            ev["S"] = self.ids_of(fx.project(s)["pmap"], e, "S")
            ids = list(ev["S"]) + ([ev["S"][0]] if e.get("repeat") and ev["S"] else [])
            ev["Sn"], ev["unk"] = self.names_of(fx.project(s)["pmap"], ids)
            before = json.dumps(fx.project(s), sort_keys=True)
            st, r = outcome(R.reveal_plates, s, ids)
            # reveal returns a new screen: the one it was given (a simulation may still hold it) is what it was
            ev["arg_same"] = json.dumps(fx.project(s), sort_keys=True) == before
            if st == "ok":
                self.scr[e["h"]] = r
                ev["refused"] = False
            elif r.startswith("ValueError"):
                ev["refused"] = True
                ev["msg"] = r
            else:
                self.raised = "reveal_plates raised: " + r
        elif op in ("mask", "unmask"):
            before = json.dumps(fx.project(self.scr[e["h"]]), sort_keys=True)
            old = self.scr[e["h"]]
            st, r = outcome(R.mask_screen if op == "mask" else R.unmask_screen, self.scr[e["h"]])
            ev["arg_same"] = json.dumps(fx.project(old), sort_keys=True) == before
            if st != "ok":
                self.raised = "%s_screen raised: %s" % (op, r)
            else:
                self.scr[e["h"]] = r
        elif op == "set_observed":
            s = self.scr[e["h"]]
            ev["P"] = self.ids_of(fx.project(s)["pmap"], e, "P")
            ev["Pn"], _ = self.names_of(fx.project(s)["pmap"], list(ev["P"]))
            sel = np.isin(s.plate_ids, list(ev["P"]))
            vals = np.array([fx.newval(i + 1) for i in range(s.size) if sel[i]], dtype=float)
            st, r = outcome(s.set_observed, sel, vals)
            if st != "ok":
                self.raised = "set_observed raised: " + r
        elif op == "merge":
            s = self.scr[e["h"]]
            pm = fx.project(s)["pmap"]
            if "an" in e:          # an explored history names the plates; the real object says which ids they have
                by_name = {int(t): int(i) for t, i in pm}
                ev["a"], ev["b"] = by_name.get(e["an"], 10 ** 6), by_name.get(e["bn"], 10 ** 6)
            an, _ = self.names_of(pm, [ev["a"]])
            bn, _ = self.names_of(pm, [ev["b"]])
            ev["an"], ev["bn"] = (an + [99])[0], (bn + [99])[0]
            st, r = outcome(lambda: s.get_plate(ev["a"]).merge(s.get_plate(ev["b"])))
            if st != "ok":
                self.raised = "Plate.merge raised: " + r
        elif op == "save":
            st, r = outcome(self.scr[e["h"]].save_h5, self.fn(e["p"]))
            if st != "ok":
                self.raised = "save_h5 raised: " + r
            else:
                self.fproj[e["p"]] = self._file_proj(e["p"])
        elif op == "load":
            st, r = outcome(Screen.load_h5, self.fn(e["p"]))
            if st != "ok":
                self.raised = "load_h5 raised: " + r
            else:
                self.scr[e["h"]] = r
        elif op == "cli_reveal":
            from batchie.cli import reveal_plate
            out = self.fn(e["q"]) + ".new"
            ev["S"] = self.ids_of(self.fproj[e["p"]].get("pmap", []), e, "S")
            ev["Sn"], ev["unk"] = self.names_of(self.fproj[e["p"]].get("pmap", []), list(ev["S"]))
            st, r = _cli(reveal_plate.main, ["--screen", self.fn(e["p"]), "--output", out, "--plate-id"] + [str(x) for x in ev["S"]])
            if st == "ok":
                os.replace(out, self.fn(e["q"]))
                ev["refused"] = False
                self.fproj[e["q"]] = self._file_proj(e["q"])
            elif r.startswith("ValueError"):
                ev["refused"] = True
            else:
                self.raised = "reveal_plate CLI raised: " + r
        elif op == "space":
            s = self.scr[e["h"]]
            sp = ExperimentSpace.from_screen(s)

            def pj(x):
                return {"t": [[str(a), bits(b), int(c)] for a, b, c in zip(*x.treatment_mapping)],
                        "s": [[str(a), int(b)] for a, b in zip(*x.sample_mapping)], "ctl": str(x.control_treatment_name)}
            fn = os.path.join(self.tmp, "space.h5")
            st, r = outcome(sp.save_h5, fn)
            st1, sp1 = outcome(ExperimentSpace.load_h5, fn) if st == "ok" else (st, r)
            if st1 == "ok":
                st2, r2 = outcome(sp1.save_h5, fn)
                st2, sp2 = outcome(ExperimentSpace.load_h5, fn) if st2 == "ok" else (st2, r2)
            if st != "ok" or st1 != "ok" or st2 != "ok":
                self.raised = "ExperimentSpace save/load raised: %s" % [x for x in (r, sp1 if st1 != "ok" else None) if isinstance(x, str)]
            else:
                ev.update({"sp0": pj(sp), "sp1": pj(sp1), "sp2": pj(sp2)})
        elif op == "cli_meta":
            from batchie.cli import extract_screen_metadata
            out = os.path.join(self.tmp, "meta.json")
            st, r = _cli(extract_screen_metadata.main, ["--screen", self.fn(e["p"]), "--output", out])
            if st != "ok":
                self.raised = "extract_screen_metadata CLI raised: " + r
            else:
                ev["meta"] = json.load(open(out))
        if self.raised:
            ev["raised"] = self.raised
            self.events.append(ev)
            return False
        ev["after"] = self.after()
        for k in ("S", "P", "sel", "Sn", "Pn"):
            ev.setdefault(k, [])
        for k, d in (("unk", False), ("an", 0), ("bn", 0)):
            ev.setdefault(k, d)
        for k, d in (("h", "train"), ("p", 1), ("q", 1), ("refused", False), ("a", 0), ("b", 0), ("arg_same", True)):
            ev.setdefault(k, d)
        ev.setdefault("meta", {})
        for k in ("sp0", "sp1", "sp2"):
            ev.setdefault(k, {})
        self.events.append(ev)
        return True


def random_history(fx, rnd, tmp, length):
    """a random history chosen from the real objects' point of view"""
    w = World(fx, tmp)
    did_split = False
    for _ in range(length):
        live = [h for h in ("train", "test") if w.scr[h] is not None]
        files = [p for p in w.paths if w.fproj[p]["live"]]
        ops = ["reveal", "reveal", "mask", "unmask", "set_observed", "save", "save", "merge"]
        if not did_split and w.scr["test"] is None:
            ops += ["split", "split"]
        if files:
            ops += ["load", "load", "cli_reveal", "cli_meta"]
        op = rnd.choice(ops)
        h = rnd.choice(live)
        s = w.scr[h]
        if op == "split":
            tr = w.scr["train"]
            un = [p for p in tr.plates if not p.is_observed]
            tot = sum(math.ceil(p.size * fx.fn / fx.fd) for p in un)
            if tot == 0 or tot == tr.size:
                continue
            e = {"op": "split"}
            did_split = True
        elif op == "reveal":
            e = {"op": "reveal", "h": h, "S": sorted(rnd.sample(range(-1, s.n_plates + 1), rnd.randint(0, min(3, s.n_plates + 2)))),
                 "repeat": rnd.random() < 0.3}
        elif op in ("mask", "unmask"):
            e = {"op": op, "h": h}
        elif op == "merge":
            same = [(a, b) for a in range(s.n_plates) for b in range(s.n_plates) if a != b and s.get_plate(a).is_observed == s.get_plate(b).is_observed]
            if not same:
                continue
            a, b = rnd.choice(same)
            e = {"op": "merge", "h": h, "a": a, "b": b}
        elif op == "set_observed":
            e = {"op": "set_observed", "h": h, "P": sorted(rnd.sample(range(s.n_plates), rnd.randint(1, s.n_plates)))}
        elif op == "save":
            e = {"op": "save", "h": h, "p": rnd.choice(w.paths)}
        elif op == "load":
            e = {"op": "load", "h": h, "p": rnd.choice(files)}
        elif op == "cli_reveal":
            p = rnd.choice(files)
            npl = len(w.fproj[p]["pmap"])
            e = {"op": "cli_reveal", "p": p, "q": rnd.choice(w.paths), "S": sorted(rnd.sample(range(npl + 1), rnd.randint(1, min(2, npl + 1))))}
        else:
            e = {"op": "cli_meta", "p": rnd.choice(files)}
        if not w.do(e, rng_seed=rnd.randrange(1 << 30)):
            break
    return w


def scripted_history(fx, tmp, k):
    """what a simulation does with its training screen, spelled out: split, then two save / load round trips (ids and mappings must come
    back unchanged both times), a reveal through the command line, another reload, a save of the test screen"""
    w = World(fx, tmp)
    tr = w.scr["train"]
    un = [p for p in tr.plates if not p.is_observed]
    tot = sum(math.ceil(p.size * fx.fn / fx.fd) for p in un)
    steps = ([{"op": "split"}] if 0 < tot < tr.size else []) + [
        {"op": "save", "h": "train", "p": 1}, {"op": "load", "h": "train", "p": 1}, {"op": "save", "h": "train", "p": 2}, {"op": "load", "h": "train", "p": 2},
        {"op": "cli_reveal", "p": 2, "q": 1, "S": [k % 3]}, {"op": "load", "h": "train", "p": 1 if k % 2 else 2}, {"op": "save", "h": "train", "p": 1},
        {"op": "load", "h": "train", "p": 1}, {"op": "cli_meta", "p": 1}]
    for e in steps:
        if e["op"] == "cli_reveal" and not w.fproj[e["p"]]["live"]:
            continue
        if not w.do(dict(e), rng_seed=1000 + k):
            break
    return w


def replay_path(fx, path, tmp):
    w = World(fx, tmp)
    for e in path:
        e = {k: (list(v) if isinstance(v, (list, tuple)) else v) for k, v in e.items() if k != "refused"}
        if not w.do(e):
            break
    return w


# ---------------------------------------------------------------------------------------------
def fixtures(rnd, n_random):
    c = lambda n, d: (n, d)
    fs = [
        # sample 2 and treatment (2,3) occur only in one row of an unobserved plate: the hold-out can take them away
        Fixture([(0, [c(0, 2), c(1, 2)], 0, 1), (0, [c(1, 2), c(3, 1)], 0, 2), (1, [c(0, 2), c(1, 3)], 1, 3),
                 (2, [c(2, 4), c(1, 2)], 1, 4), (1, [c(0, 3), c(3, 2)], 2, 5), (0, [c(1, 3), c(0, 2)], 2, 6)],
                obs=[0], ctl=3, fn=1, fd=2, pools=0, name="heldout-only-names"),
        # zeros and NaN behind the mask: reveal refusal paths; arity 1; no control name in the data
        Fixture([(0, [c(0, 2)], 0, 1), (1, [c(1, 2)], 1, 2), (1, [c(1, 3)], 1, 2), (0, [c(2, 2)], 2, 3), (2, [c(0, 1)], 2, 4),
                 (2, [c(0, 0)], 3, 5)],
                obs=[0], ctl=9, fn=1, fd=4, zero=[2], nan=[3], pools=1, name="zero-nan-plates", tiny=[5]),
        # whole unobserved plates go to the hold-out (fraction 1): the training screen loses samples and conditions
        Fixture([(0, [c(0, 2), c(3, 2)], 0, 1), (1, [c(1, 2), c(0, 2)], 0, 2), (2, [c(2, 2), c(1, 3)], 1, 3), (3, [c(2, 3), c(3, 2)], 2, 4),
                 (0, [c(0, 3), c(1, 2)], 3, 5)],
                obs=[0, 3], ctl=3, fn=1, fd=1, pools=3, name="fraction-one", perm_samples=True),
        # nothing observed, fraction 0... (no split possible), duplicates of a condition, control in both columns
        Fixture([(0, [c(0, 2), c(0, 2)], 0, 1), (0, [c(0, 2), c(0, 2)], 1, 2), (1, [c(3, 2), c(3, 1)], 1, 3), (1, [c(1, 0), c(2, 2)], 0, 4)],
                obs=[], ctl=3, fn=1, fd=2, pools=1, name="duplicates-and-controls"),
    ]
    # a dozen samples (two-digit ids), some only in rows the hold-out can take away: not explored by TLC, random histories only
    fs.append(Fixture([(i, [c(i % 3, 2), c(3, 1 + i % 2)], i % 3, i + 1) for i in range(12)] + [(12, [c(1, 2), c(0, 2)], 3, 13)],
                      obs=[0], ctl=3, fn=1, fd=2, pools=4, name="twelve-samples", explore=False))
    for i in range(n_random):
        ar = rnd.choice([1, 2, 2, 3])
        nr = rnd.randint(3, 6)
        npl = rnd.randint(1, 3)
        rows = []
        zero, nan = [], []
        for r in range(nr):
            # value tokens identify bit patterns: every 0.0 row shares one token, every NaN row another
            u = rnd.random()
            v = 50 if u < 0.15 else (60 if u < 0.25 else r + 1)
            if v == 50 and 50 not in zero:
                zero.append(50)
            if v == 60 and 60 not in nan:
                nan.append(60)
            rows.append((rnd.randrange(3), [c(rnd.randrange(4), rnd.randrange(4)) for _ in range(ar)], rnd.randrange(npl + 1), v))
        obs = [p for p in range(npl + 1) if rnd.random() < 0.3]
        fs.append(Fixture(rows, obs, rnd.choice([0, 1, 2, 3, 9]), *rnd.choice([(1, 2), (1, 4), (1, 1), (3, 4)]), zero=zero, nan=nan,
                          pools=i % 4, name="random-%d" % i))
    return fs


# ---------------------------------------------------------------------------------------------
INV = {
    "C12": (["Atomic"], ["RevealExact", "ValuesFrozen", "MaskMonotoneUnderReveal"]),
    "C03": (["IdStable", "SameNameSameId", "SpaceNeverShrinks"], []),
    "C02": ([], ["LoadIsSaved", "SaveIsCurrent"]),
    "C11": ([], ["HoldoutPartition"]),
}
ACTIONS = ["Split", "Reveal", "Mask", "Unmask", "SetObserved", "MergePlates", "Save", "Load", "CliReveal", "CliMeta"]


def lifecycle_cfg(tlc, focus, depth, export, quick=False):
    inv, props = INV[focus]
    if quick:       # SameNameSameId follows from IdStable and is quadratic in the rows: thorough tier only
        inv = [i for i in inv if i != "SameNameSameId"]
    return tlc.cfg(constants={"Zero": 1, "MaxDepth": depth, "Paths": {1, 2}, "Export": export},
                   invariants=inv + ["ExportPath"], properties=props, constraint="Bound", action_constraint="NoIdleRuns",
                   view="View")


def run_lifecycle(ctx, focus):
    from harness import tlc
    from harness.tracecheck import validate
    rnd = random.Random(ctx.seed)
    fxs = fixtures(rnd, 2 if ctx.quick else 12)
    depth = 3 if ctx.quick else 4
    budget_paths = 36 if ctx.quick else 400          # per fixture
    n_random = 16 if ctx.quick else 150               # per fixture
    tmp = tempfile.mkdtemp(prefix="verif-lc-")
    total_paths = 0
    seen_actions = set()
    try:
        for fi, fx in enumerate(fxs):
            fx.prepared()
            fjson = fx.to_json()
            # full depth on the fixtures where it is affordable (thorough: depth 4 is 3-8 million states on the other hand-made ones)
            d = depth if (fi < 1 if ctx.quick else fi in (0, 3)) else max(2, depth - 1)
            if not fx.explore:
                d = 0           # (Init only: the fixture is well-formed; its behaviours are too many to enumerate)
            r = ctx.tlc("Lifecycle", lifecycle_cfg(tlc, focus, d, True, quick=ctx.quick), note="fixture %s depth %d" % (fx.name, d),
                        files={"fixture.json": fjson}, env={"FIXTURE_FILE": "fixture.json"}, coverage=True, workers=8)
            if r.violation:
                ctx.violation("design-level: Lifecycle violates %s on fixture %s" % (r.violation, fx.name), {"kind": "tlc", "tlc": r.violation_text})
                continue
            seen_actions |= {a for a in ACTIONS if r.coverage.get(a, (0, 0))[1] > 0 or r.coverage.get(a + "Any", (0, 0))[1] > 0}
            paths = [p["hist"] for p in r.by_tag("path") if p["hist"]]
            # (B) covering sample of the explored behaviours: longest first, then a seeded sample
            paths.sort(key=lambda h: -len(h))
            pick = paths[:budget_paths // 3] + rnd.sample(paths, min(len(paths), budget_paths - budget_paths // 3))
            traces, worlds = [], []
            for h in pick:
                w = replay_path(fx, h, tmp)
                worlds.append(w)
            for k_ in range(3 if ctx.quick else 12):
                worlds.append(scripted_history(fx, tmp, k_))
            from harness.util import verbose_logging
            for k_ in range(n_random):
                if k_ % 2:           # every other history with debug logging on: nothing may depend on how verbose the run is
                    with verbose_logging():
                        worlds.append(random_history(fx, rnd, tmp, rnd.randint(1, 12 if focus != "C02" else 16)))
                else:
                    worlds.append(random_history(fx, rnd, tmp, rnd.randint(1, 12 if focus != "C02" else 16)))
            if focus == "C02":
                for w in worlds:
                    if not w.raised:
                        w.do({"op": "space", "h": "train" if w.scr["test"] is None or len(w.events) % 2 else "test"})
            ok = []
            for w in worlds:
                ctx.evaluations += len(w.events)
                if w.raised:
                    if _blame(focus, w):
                        ctx.violation("fixture %s: %s after %s" % (fx.name, w.raised, [e["op"] for e in w.events]),
                                      {"kind": "history", "fixture": fx.name, "ops": _ops(w)})
                    # keep the prefix that did run
                    w.events = [e for e in w.events if "after" in e]
                if w.events:
                    ok.append(w)
            total_paths += len(pick)
            tconst = {"Zero": 1, "MaxDepth": 99, "Paths": {1, 2}, "Export": False, "Focus": focus, "Strict": False}
            tr_ = [{"events": w.events, "prepared": w.prepared} for w in ok]
            bad = validate(ctx, "TraceLifecycle", tr_, decide=None, next_="TNext", init="TInit", invariants=["TInv"], constants=tconst,
                           extra_files={"fixture.json": fjson}, note="fixture %s" % fx.name)
            if focus == "C12" and (fi < 2 or not ctx.quick):
                # conformance of the numbering the specification assumes (plate id = rank of the plate name): a drift note, not a verdict
                before = ctx.traces
                drift = validate(ctx, "TraceLifecycle", tr_, decide=None, next_="TNext", init="TInit", invariants=["TInv"], constants=dict(tconst, Strict=True),
                                 extra_files={"fixture.json": fjson}, note="fixture %s: plate ids as numbered by Lifecycle.tla" % fx.name)
                ctx.traces = before
                only = [d for d in drift if d[0] not in {b_[0] for b_ in bad}]
                ctx.extra["model_drift"] = ctx.extra.get("model_drift", 0) + len(only)
                if only:
                    print("NOTE model-drift property=C12: %d history(ies) satisfy every clause of C12 but number the plates differently from Lifecycle.tla "
                          "(first at '%s'); the transcription of the plate encoding needs updating" % (len(only), only[0][1]))
            # FIXTURE_FILE must be visible to the trace run as well
            for i, clause in bad[:2]:
                w = ok[i]
                ctx.finding_or_violation(focus, fx, w, clause)
            if ok and not bad and fi == 0:
                from harness.tracecheck import selftest

                def corrupt(t):
                    if focus == "C12":
                        e = [x for x in t["events"] if x["after"]["train"]["live"]][-1]
                        e["after"]["train"]["mask"][0] = not e["after"]["train"]["mask"][0]
                        return "one logged observation-mask bit of the training screen flipped"
                    if focus == "C03":
                        e = [x for x in t["events"] if x["after"]["train"]["live"]][-1]
                        e["after"]["train"]["sids"][0] += 1
                        return "one logged sample id of the training screen incremented"
                    for e in t["events"]:
                        if e["op"] == "save":
                            e["after"]["files"][e["p"] - 1]["val"][0] += 1
                            return "one logged value token of a saved file changed"
                    return None
                pool = [w for w in ok if (focus != "C02" or any(e["op"] == "save" for e in w.events))]
                if pool:
                    selftest(ctx, "TraceLifecycle", {"events": pool[0].events, "prepared": pool[0].prepared}, corrupt, decide=None, next_="TNext", init="TInit", invariants=["TInv"],
                             constants=tconst, extra_files={"fixture.json": fjson})
            if ok:
                ctx.sample({"fixture": fx.name, "history": [{k: v for k, v in e.items() if k != "after"} for e in ok[0].events][:6]})
    finally:
        shutil.rmtree(tmp, ignore_errors=True)
    missing = [a for a in ACTIONS if a not in seen_actions]
    if missing:
        raise tlc.TLCError("vacuity guard: Lifecycle actions never taken on any fixture: %s" % missing)
    ctx.extra["fixtures"] = [f.name for f in fxs]
    ctx.extra["spec_to_code_paths"] = total_paths
    ctx.assumptions += ["both halves of a hold-out split are non-empty", "file content = what Screen.load_h5 returns for it",
                        "set_observed is exercised on whole plates inside histories (arbitrary selections separately)"]


def _ops(w):
    return [{k: v for k, v in e.items() if k not in ("after", "meta", "msg")} for e in w.events]


def _blame(focus, w):
    """an unexpected exception of the real code is attributed to the property whose operation raised"""
    op = w.events[-1]["op"] if w.events else ""
    if focus == "C02":
        return op in ("save", "load") or "load_h5 of file" in (w.raised or "")
    if focus == "C12":
        return op not in ("save", "load")
    return False


def replay_lifecycle(ctx, focus, rp):
    from harness.tracecheck import validate
    rnd = random.Random(0)
    fx = [f for f in fixtures(random.Random(ctx.seed), 12) if f.name == rp["fixture"]][0]
    fx.prepared()
    tmp = tempfile.mkdtemp(prefix="verif-lc-")
    try:
        w = replay_path(fx, rp["ops"], tmp)
        if w.raised and _blame(focus, w):
            ctx.violation("replay: " + w.raised, rp)
        w.events = [e for e in w.events if "after" in e]
        bad = validate(ctx, "TraceLifecycle", [{"events": w.events, "prepared": w.prepared}], decide=None, next_="TNext", init="TInit", invariants=["TInv"],
                       constants={"Zero": 1, "MaxDepth": 99, "Paths": {1, 2}, "Export": False, "Focus": focus, "Strict": False},
                       extra_files={"fixture.json": fx.to_json()})
        for i, clause in bad:
            ctx.finding_or_violation(focus, fx, w, clause)
    finally:
        shutil.rmtree(tmp, ignore_errors=True)


# ---------------------------------------------------------------------------------------------
# C12: constructor and set_observed clauses (Construct.tla)
def _construct_real(plate, maskin, mode, sel):
    n = len(plate)
    tn = np.array([["d%d" % (i % 3)] for i in range(n)], dtype=str)
    td = np.ones((n, 1))
    sn = np.array(["s"] * n, dtype=str)
    pn = np.array(["plate-%d" % p for p in plate], dtype=str)
    obs = np.array([0.25 + 0.01 * (i + 1) for i in range(n)])
    # any value may be given as an observation: one NaN, one negative, one infinite among them (value tokens stay one per row)
    for j, special in zip(range((sum(plate) + len(sel)) % 2, n, 2), (float("nan"), -0.5, float("inf"))):
        obs[j] = special
    tokmap = {bits(float(x)): i + 1 for i, x in enumerate(obs)}
    kw = {}
    if mode in ("mask", "nomask"):
        kw["observations"] = obs.copy()
    if mode == "mask":
        kw["observation_mask"] = np.array(maskin, dtype=bool)
    st, s = outcome(Screen, treatment_names=tn, treatment_doses=td, sample_names=sn, plate_names=pn, **kw)
    if st != "ok":
        return {"ok": False, "err": s, "mask": [], "val": [], "mask2": [], "val2": []}

    def vt(x):
        if x == 0.0:
            return 0
        if bits(x) in tokmap:
            return tokmap[bits(x)]
        if x != x or x in (float("inf"), float("-inf")):
            return 998
        k = int(round((x - 0.25) / 0.01))
        if 1 <= k <= n and bits(x) == bits(0.25 + 0.01 * k):
            return k
        k = int(round((x - 0.75) / 0.001))
        if 1 <= k <= n and bits(x) == bits(0.75 + 0.001 * k):
            return 100 + k
        return 999
    g = {"ok": True, "mask": [bool(x) for x in s.observation_mask], "val": [vt(float(x)) for x in s.observations]}
    selv = np.zeros(n, dtype=bool)
    selv[[i - 1 for i in sel]] = True
    st, r = outcome(s.set_observed, selv, np.array([0.75 + 0.001 * i for i in sorted(sel)], dtype=float))
    if st != "ok":
        g["err"] = "set_observed: " + r
    g["mask2"] = [bool(x) for x in s.observation_mask]
    g["val2"] = [vt(float(x)) for x in s.observations]
    return g


def run_construct(ctx):
    from harness import tlc
    from harness.tracecheck import validate
    rnd = random.Random(ctx.seed + 7)
    n = 4 if ctx.quick else 5
    invs = ["RejectIffMixed", "AcceptedIsAtomic", "SetExact", "ExportCase"]
    r = ctx.tlc("Construct", tlc.cfg(constants={"N": n, "PlateToks": {0, 1, 2}, "Export": True}, invariants=invs),
                note="constructor / set_observed clauses, %d rows" % n, workers=1, coverage=True)
    if r.violation:
        ctx.violation("design-level: Construct violates %s" % r.violation, {"kind": "tlc", "tlc": r.violation_text})
    cases = r.by_tag("construct")
    pick = cases if len(cases) <= (2500 if ctx.quick else 40000) else rnd.sample(cases, 2500 if ctx.quick else 40000)
    for e in pick:
        g = _construct_real(list(e["plate"]), list(e["maskin"]), e["mode"], sorted(e["sel"]))
        ctx.evaluations += 1
        want = e["built"]
        bad = None
        if g["ok"] != want["ok"]:
            bad = "constructor %s, specification %s" % ("accepted" if g["ok"] else "rejected: " + g.get("err", ""), "accepts" if want["ok"] else "rejects (mixed plate)")
        elif g["ok"] and (g["mask"] != list(want["mask"]) or g["val"] != list(want["val"])):
            bad = "mask/values after construction %s %s, specification %s %s" % (g["mask"], g["val"], want["mask"], want["val"])
        elif g["ok"] and (g["mask2"] != list(e["after"]["mask"]) or g["val2"] != list(e["after"]["val"]) or "err" in g):
            bad = "after set_observed(%s): %s %s %s, specification %s %s" % (sorted(e["sel"]), g["mask2"], g["val2"], g.get("err", ""), e["after"]["mask"], e["after"]["val"])
        if bad:
            ctx.violation("plates=%s mask=%s mode=%s: %s" % (e["plate"], e["maskin"], e["mode"], bad), {"kind": "construct", "case": e})
            break
    ctx.traces += len(pick)
    traces = []
    for _ in range(150 if ctx.quick else 1500):
        m = rnd.randint(1, 12)
        plate = [rnd.randrange(4) for _ in range(m)]
        mode = rnd.choice(["mask", "mask", "mask", "nomask", "noobs"])
        if mode == "mask":
            pm = {p: rnd.random() < 0.5 for p in set(plate)}
            maskin = [pm[p] for p in plate]
            if rnd.random() < 0.4:
                i = rnd.randrange(m)
                maskin[i] = not maskin[i]
        else:
            maskin = [True] * m
        sel = sorted(rnd.sample(range(1, m + 1), rnd.randint(0, m)))
        traces.append({"plate": plate, "maskin": maskin, "mode": mode, "sel": sel, "got": _construct_real(plate, maskin, mode, sel)})
    bad = validate(ctx, "TraceConstruct", traces, decide="Decide", next_="TNext", init="TInit",
                   constants={"N": 1, "PlateToks": {0}, "Export": False})
    for i, clause in bad[:3]:
        ctx.violation("constructor/set_observed rejected by TraceConstruct at '%s': %s" % (clause, json.dumps(traces[i])[:400]),
                      {"kind": "construct-trace", "trace": traces[i], "clause": clause})
