"""Regenerates /verif/MANIFEST.json from the table below (run after adding a driver)."""
import json, os

ROOT = os.path.dirname(os.path.dirname(os.path.abspath(__file__)))
PENDING = "check not built yet in this round (specification and driver in progress); not claimed until it runs clean"

# id -> (level text, level note, technique, design ref)
BUILT = {
 "C08": ("Gibbs.tla derives, from the likelihood and priors of the documented model, the script of one sweep: every draw in block "
         "order with the parameters of the full conditional of its element as terms over the sampler's state at that moment "
         "(residuals rebuilt from the parameters, never from the running fitted values; conjugate gamma updates incl. the "
         "auxiliary-variable shrinkage and the multiplicative gamma process; documented clipping bounds); TLC checks block order / "
         "once-per-element and Coherent (the observations a block patches are exactly those that depend on the element, once "
         "each) for every small dataset and shows that Coherent fails exactly for self-pair rows. Real seeded chains (3/8 sweeps, "
         "embedding sizes 1..4, samples / treatments without data, single-agent and all-control rows) are instrumented from "
         "outside (numpy.random.normal/gamma, the MVN routine, per-block wrappers) and every draw's arguments, every stored value, "
         "alpha, the fitted values after every block, tau and the exported sample are compared with the evaluated terms; the MVN "
         "routine is checked through Q x(0) = b and Q Cov = I with controlled z.",
         "numpy's normal / gamma are trusted to realise the requested parameters; float32 state: 5e-4 of the magnitude; self-pair "
         "datasets are the known finding C08/self-pair-row.",
         "TLA+ derivation of the sweep script + TLC design invariants; trace comparison of instrumented real chains against the evaluated terms",
         "5/C08"),
 "C04": ("TrainSet.tla constructs, for every partially observed screen of 2/3 rows (control in either or both positions, self-pair, "
         "any mask, value classes ok / 0 / 1 / negative / NaN), the exact sequence each shipped model must be handed through the "
         "train_model path (which rows, in which order, with which transform as a term, which single-effect table) and when it "
         "must refuse; TLC checks that no masked row is referenced and every observed row occurs once, and every case is replayed "
         "into the real models (training arrays, n_obs, table, refusals, direct add_observations on masked data). "
         "Non-interference is decided by the Functional monitor: for screens that differ only in masked values (0, 1, NaN, "
         "negative, random) the model data, posterior samples of a pinned chain, every distance chunk, the scores of every "
         "shipped scorer for several chunk counts and batches, and the selected plate must be identical (key = observed "
         "projection).",
         "float32 transform compared at 5e-4 of the magnitude; the legacy samplers' random draws are pinned by a driver-side patch "
         "so that both runs see identical numbers; two defects found were repaired in /repo.",
         "TLA+ term construction + TLC; spec->code replay of every exported case; trace validation with a memo-table monitor",
         "5/C04"),
 "C18": ("Functional.tla: a memo table from declared inputs (inputs, parameters, seed) to outputs plus the identity of the "
         "process-global numpy state; Call requires same key => same output and global state untouched; TLC checks the monitor "
         "against a conforming system under every interleaving with perturbations. Every randomised operation of the statement "
         "(all generators and smoothers, cover, both hold-outs, random scorer, sub-sampled DBAL triples, score_chunk, policy "
         "selection, sampling.sample on both MCMC models, and the prepare / train / calculate_scores / select_next_plate commands "
         "with --seed) is run twice with identical inputs and seed while the driver reseeds and advances the global generator "
         "differently in between, and a third time with another seed (witness that outputs can change); TraceFunctional decides.",
         "known finding C18/gibbs-global-rng (legacy Gibbs samplers use numpy.random.* and an unseeded default_rng): reported as "
         "KNOWN-FINDING for the three training call sites only; calculate_scores ignoring --seed was repaired.",
         "TLA+ monitor specification + TLC; trace validation of instrumented real runs",
         "5/C18"),
 "C05": ("DBAL.tla constructs the documented estimator of ONE plate as a term over that plate's own means / variances and the "
         "distance matrix (log-sum over all triples i>j>k of the Gaussian triple term per experiment times the summed pairwise "
         "distance); TLC checks that all C(n,3) triples occur once, that only the plate's own cells are read and every cell is "
         "used, and exports the terms; the homoscedastic, heteroscedastic, vectorized (also called twice on the same padded "
         "arrays) and GaussianDBALScorer entry points (real plate views, stub samples through predict_mean_all / "
         "predict_variance_all, random co-scoring orders and internal batch sizes, each plate also alone) must return the "
         "evaluated term for every plate: unequal sizes incl. 1, variances over six orders of magnitude, magnitude-disparate "
         "plates (60 experiments at 1e-3 vs 1e3), zero distances.",
         "triple budget covers all triples; float64 term evaluation, tolerance 1e-9 of the magnitude in the log domain.",
         "TLA+ term construction + TLC structural invariants; spec->code evaluation of exported terms on every entry point",
         "5/C05"),
 "C20": ("Metrics.tla builds mse, mse variance across experiments, inter-chain variance (any chain labelling: unequal lengths, "
         "one chain, interleaved), mean predictions, the single-agent effect map / array (arity 2 and 3, repeated measurements, "
         "control in any column), Bliss synergy with lenient skip / strict refusal as terms from the discrete structure alone; "
         "TLC enumerates all small structures (every pair once, chains partition columns, map domain = measured pairs + control) "
         "and larger random ones via a cases file; every structure is evaluated against the real functions on random values; "
         "evaluation files must reload bit-identically; combination space (all unordered combinations, ids verbatim), "
         "similarity matrix (symmetric, unit diagonal) and calculate_mse are checked on a real screen.",
         "similarity matrix / calculate_mse compared with their definition evaluated in the harness; float64, 1e-9.",
         "TLA+ term construction + TLC structural invariants; spec->code evaluation of exported terms",
         "5/C20"),
 "C09": ("Predict.tla constructs, for every experiment shape (2 samples, 3 treatments + control in either or both positions, "
         "arity 1 and 2, embedding sizes 1..3, both shipped sample types), the term the documented model assigns to mean, "
         "viability and variance; TLC checks on the terms that only the experiment's own sample and non-control treatments are "
         "read, swap symmetry and control neutrality, and exports them; every shape is evaluated on random (also extreme) "
         "parameter values against the real predict_* (1e-9 of the term's magnitude); purity and row-wise independence are "
         "decided by the Functional monitor (TraceFunctional): the same (sample, treatments) must predict bit-identically on the "
         "whole screen, every plate view, random subsets and row permutations, and the sample's and screen's digests must not "
         "change; stacked/averaged helpers checked row by row.",
         "IEEE double evaluation of terms (harness/terms.py) is trusted; tolerance 1e-9 x magnitude.",
         "TLA+ term construction + TLC structural invariants; spec->code evaluation of exported terms; trace validation with a memo-table monitor",
         "5/C09"),
 "C11": ("Retro.tla states conservation (generators keep every experiment, smoothers keep a sub-collection, nothing invented, "
         "altered or duplicated), pass-through of the observed part and the hold-out partition with ceil(fraction*size) per "
         "unobserved plate as relations between input and output screens; TLC explores generative transcriptions of two "
         "operations on all small screens; every shipped generator, smoother, the cover, the combination filter and both "
         "hold-outs are run on TLC-explored and seeded random screens (duplicates, single-agent and all-control rows, observed "
         "plates) with several generator seeds and each (input, parameters, output) is decided by TraceRetro(Focus=C11); the "
         "hold-out is additionally explored inside Lifecycle.tla (HoldoutPartition).",
         "operations that raise are outside 'whenever they return' (counted in evidence); experiment identity = names, doses, value bits.",
         "TLA+ relational specification + TLC on generative transcriptions; code->spec trace validation of real calls",
         "5/C11"),
 "C13": ("Same module, Focus=C13: one sample per generated plate, at most max per plate and exactly ceil(count/max) plates with "
         "array_split sizes, sparse cover (every sample and treatment observed, rest in one plate, singles revealed), exact "
         "combination filter, common / optimal plate size (retains most), no starved sample and qualifying samples kept, "
         "merges only whole same-sample plates, min-merge stops exactly, top-bottom halves rounding up; TLC finds the "
         "design-level counterexamples of the two defects repaired in /repo when their pinned transcriptions are enabled "
         "(BugSeg / BugNPL).",
         "as C11.",
         "TLA+ relational specification + TLC on generative transcriptions; code->spec trace validation of real calls",
         "5/C13"),
 "C10": ("ThetaStore.tla: holders [declared size, items] under add / get / save / load / concat with their refusals (full, out of "
         "range incl. negative, empty), three handles so that operands of concat stay observable, and the chain pipeline "
         "(per-chain files of sizes crossing 10/11/12, any file order, evaluation labelling columns from per-file sizes); TLC "
         "explores all operation histories to depth 5/6 and all size/order combinations (ChainMajor, LoadIsSaved, CapRespected, "
         "numeric vs lexicographic key order differing from 11 on). Explored histories run on real ThetaHolder objects of both "
         "shipped sample types (float64 incl. denormals and values that do not survive float32; shared, empty or control-keyed "
         "single-effect tables) with real HDF5 files; TraceThetaStore compares declared size and the identity (bit digest) of "
         "every item of every holder and file after every step; reloaded samples must predict bit-identically; the real "
         "evaluate_model command is run with chain files in every explored order and its columns / chain ids compared.",
         "sample identity = SHA-1 of all parameter bytes; evaluation on complete holders.",
         "TLA+ state machine + TLC exhaustive; spec->code replay of explored histories; code->spec trace validation",
         "5/C10"),
 "C06": ("ScoreSelect.tla: candidates = sorted unobserved plates minus batch; np.array_split chunk arithmetic incl. empty chunks; "
         "conditioning rows (own + batch plates, one per condition class); holders concatenated in any chunk order; selection = any "
         "allowed plate with no strictly lower allowed plate, nothing iff nothing allowed. TLC enumerates every observed set, batch, "
         "chunk count, score assignment (3 levels incl. -inf, ties), chunk order and allowed set on two fixtures; explored rounds "
         "are replayed with a recording Scorer, real ChunkedScoresHolder save/load/concat and select_next_plate (no policy / stub "
         "policy); random rounds incl. more chunks than plates and the select_next_plate CLI are validated by TraceScoreSelect.",
         "the conditioning filter may keep any representative; argmin ties may resolve to any minimal plate; calculate_scores CLI "
         "is exercised under C18. The verdict is taken from the clauses of the statement evaluated on what the code actually returned (Strict=FALSE); equality with the transcribed algorithm is a second pass reported as NOTE model-drift, never as a violation.",
         "TLA+ transcription + TLC exhaustive; spec->code replay; code->spec trace validation",
         "5/C06"),
 "C14": ("Views.tla: a pool of view objects over parent screens; every operation (subset of a subset, combine, concat, invert, "
         "observed/unobserved split, get_plate, unique-condition filter, to_screen) creates a new object and NoAliasing requires "
         "every existing object unchanged; TLC explores all compositions up to 4/5 objects on fixtures with duplicate, swapped "
         "and control-neighbour conditions; explored behaviours and random longer ones are executed on real "
         "Screen/ScreenSubset/Plate objects and TraceViews compares, after every operation, the selection vector, the "
         "per-row content and the ids of EVERY object in the pool, the refusal of foreign parents, and the rows of "
         "materialised screens in order.",
         "the unique-condition filter may keep any representative of a class (the statement does not say which).",
         "TLA+ state machine + TLC exhaustive; spec->code replay of explored behaviours; code->spec trace validation",
         "5/C14"),
 "C19": ("Orchestrator.tla models the script (scan transcribed line by line, decide, per-entry rmtree, the two mkdirs of makedirs, "
         "launch with choice of workflow and inputs), the launched pipeline (one Publish per file, any order allowed by the "
         "process DAG of the workflow launched, incl. the prospective metadata job that is independent of the step's outputs), "
         "Crash in every non-idle state and the operator removing only a directory the script named; TLC checks "
         "NoCompletedDeleted, SameAsCrashFree, NeverDies, NoRelaunchOfCompleted, NoSkipStrict for both modes, batch sizes "
         "1..4, up to 3 crashes, and liveness under fairness. The REAL script is run in-process against a temporary tree with a "
         "model pipeline and crash injection at every filesystem mutation / publish: every single crash point and pairs of crash "
         "points are enumerated, reruns and operator removals performed, and every event log is replayed action by action by "
         "TraceOrchestrator with all C19 clauses evaluated in every state; final tree compared with the uninterrupted run.",
         "Nextflow is represented by a model pipeline (atomic publishes respecting process dependencies); determinism of pipeline "
         "steps; operator removes exactly the named directory; two genuine defects found this way were repaired (fix: commits).",
         "TLA+ state machine + TLC (safety, liveness); exhaustive crash-point enumeration of the real script validated as traces against the spec",
         "5/C19"),
 "C02": ("Lifecycle.tla models the lineage of screens and files (split, reveal, mask, unmask, set_observed, save, load, CLI "
         "reveal/metadata); TLC checks LoadIsSaved / SaveIsCurrent on every explored transition for several fixtures "
         "(unicode/empty/unequal-length names, empty or absent control name, mappings larger than the data after a hold-out, "
         "zeros and NaN behind the mask); behaviours TLC explored and random longer histories are executed on real objects "
         "and real HDF5 files, the full projection of every object (names, doses, value bits, mask, control name, three id "
         "arrays, three mappings, counters) is logged after every step, and TraceLifecycle(Focus=C02) requires file = saved "
         "screen, loaded screen = file, nothing else touched, for any number of cycles; ExperimentSpace save/load twice is a "
         "fixed point.",
         "a file's content is observed through Screen.load_h5 itself; projection code is trusted glue.",
         "TLA+ state machine + TLC; spec->code replay of explored behaviours; code->spec trace validation (relational on logged projections)",
         "5/C02"),
 "C03": ("Same machine; TLC checks IdStable / SameNameSameId / SpaceNeverShrinks in every explored state (fixtures where a "
         "sample and a (treatment, dose) occur only in rows the hold-out can take); real histories (TLC-explored and random) "
         "are validated by TraceLifecycle(Focus=C03): after every operation every screen and file carries the prepared "
         "mappings, its ids are the lookups of its own names, sizes never shrink and a fixed posterior sample predicts "
         "bit-identically for the same experiment on every stage. At study size (a prepared screen of 6,500 two-drug experiments: both "
         "hold-outs, mask / unmask, save / load, three reveals) the clause is evaluated by the harness, because the code has a path behind "
         "a size threshold that TLC's scope cannot reach.",
         "the defect F1 found by this check was repaired in /repo (fix: commit 556351c).",
         "TLA+ state machine + TLC; spec->code replay; code->spec trace validation",
         "5/C03"),
 "C12": ("Same machine; TLC checks Atomic in every state and RevealExact / ValuesFrozen / MaskMonotoneUnderReveal on every "
         "transition (reveal of any id set incl. already observed, unknown negative and too-large ids, the empty set; refusal "
         "iff all-zero or NaN); real histories are replayed action by action by TraceLifecycle(Focus=C12) comparing mask, "
         "stored value bits, conditions, plate assignment, plate ids and metadata counters of every object after every step; "
         "Construct.tla enumerates every plate/mask pattern of 4/5 rows for the constructor clauses (mixed plate rejected "
         "wherever its rows sit, no mask = all observed, no observations = all unobserved) and arbitrary set_observed "
         "selections, all replayed into the real constructor, plus larger random cases via TraceConstruct.",
         "hold-out halves are non-empty; set_observed inside histories acts on whole plates.",
         "TLA+ state machine + TLC; spec->code replay of exported cases/behaviours; code->spec trace validation",
         "5/C12"),
 "C16": ("KPerSample.tla transcribes the policy filter as select_next_plate calls it; TLC explores every screen of <=5/6 "
         "single-sample plates over 3 samples (any plate-id/sample interleaving, any observed subset), k in 1..3 and every "
         "selection order the policy admits, checking the five clauses of C16 in every state; every reachable state of the "
         "4-plate scope is rebuilt as a real Screen + batch and filter_eligible_plates / select_next_plate must agree with "
         "Allowed (with an attractive lower score on forbidden plates); random larger real walks are validated by "
         "TraceKPerSample.",
         "the recording subclass of the policy only logs; scores are small integers. The verdict is taken from the clauses of the statement evaluated on what the code actually returned (Strict=FALSE); equality with the transcribed algorithm is a second pass reported as NOTE model-drift, never as a violation.",
         "TLA+ transcription + TLC exhaustive; spec->code replay of every reachable state; code->spec trace validation",
         "5/C16"),
 "C17": ("Sampling.tla is the small-step machine of sampling.sample (reset, set_rng, burn-in loop, thinning loop, record; "
         "variational branch); TLC checks the schedule for all b<=5/9, t<=4/6, n<=4/6; each explored configuration is run "
         "through the real function with a counting model and the full event log (every reset/set_rng/step/get_state) is "
         "replayed through the machine's actions by TraceSampling, as are random larger configurations; generator identity "
         "per (seed, n_chains, chain_index) is decided on stream tokens incl. repeated calls in one process.",
         "stream non-overlap witnessed on a finite prefix; numpy SeedSequence.spawn trusted beyond it. The verdict is taken from the clauses of the statement evaluated on what the code actually returned (Strict=FALSE); equality with the transcribed algorithm is a second pass reported as NOTE model-drift, never as a violation.",
         "TLA+ state machine + TLC exhaustive; trace validation of instrumented real runs (counting model through the public API)",
         "5/C17"),
 "C01": ("Encoding.tla transcribes both id encoders over tokens (column stacking, sort, control detection, cumulative "
         "renumbering, left merge, mapping validation); TLC enumerates every input over 3 names x 4 dose classes "
         "(arity 1..3, every control name) incl. re-encoding of every row subset with the produced mapping and with one "
         "entry withheld, and checks the clauses of C01 as invariants; exported cases are concretised (unicode, empty, "
         "subnormal, -0.0 ...) and pushed through the real Screen/ExperimentSpace; larger random real screens are "
         "projected to tokens and validated by TraceEncoding.",
         "token projection (rank of names in code-point order, order/sign-preserving dose tokens) is trusted glue; "
         "NaN doses and duplicate-key mappings are outside the quantifier. The verdict is taken from the clauses of the statement evaluated on what the code actually returned (Strict=FALSE); equality with the transcribed algorithm is a second pass reported as NOTE model-drift, never as a violation.",
         "TLA+ transcription + TLC exhaustive small scope; spec->code replay of exported cases; code->spec trace validation",
         "5/C01"),
 "C07": ("DistChunks.tla: chunk arithmetic checked by TLC for every n<=10/14 and n_chunks<=50/100 (disjoint, cover, "
         "balanced, contiguous) and the assembly machine (any load order with repetition, duplicate suppression, densify "
         "iff complete, result = single-chunk reference, symmetric, zero diagonal) explored exhaustively; every explored "
         "(n,k) and every explored load history is replayed into the real functions/classes (compute with a recording "
         "metric, save, load, concat, to_dense); random larger real histories incl. zero distances and more chunks than "
         "pairs are validated step by step by TraceDistChunks, which reuses the Load/Densify actions.",
         "values compared by IEEE bit pattern; the metric's arithmetic is trusted beyond symmetry/sign/zero-on-identical. The verdict is taken from the clauses of the statement evaluated on what the code actually returned (Strict=FALSE); equality with the transcribed algorithm is a second pass reported as NOTE model-drift, never as a violation.",
         "TLA+ state machine + TLC exhaustive; spec->code replay of all explored histories; code->spec trace validation",
         "5/C07"),
 "C15": ("TLC explores the register-level transcription of the unranking generator exhaustively for every "
         "(n<=18/36, k<=4, index) and checks rank(out)=index, strict descent, range and agreement with the "
         "mathematical unranking; every explored point is replayed into get_combination_at_sorted_index; real calls in "
         "the production regime (k=3 up to n=2343 with plain integers, up to n=6000 / C(n,3)=3.6e10 with two-limb arithmetic) and the DBAL "
         "call site (also sub-sampled) are validated by TraceUnrank (rank, successor, distinctness, completeness).",
         "32-bit TLC integers: two-limb arithmetic beyond 2^31; numpy Generator.choice(replace=False) is "
         "trusted to return distinct indices (the trace checks it anyway).",
         "TLA+ small-step transcription + TLC exhaustive; spec->code replay of all explored points; code->spec trace validation",
         "5/C15"),
}


def main():
    props = [json.loads(l) for l in open(os.path.join(ROOT, "properties.jsonl"))]
    checks, na = [], []
    for p in props:
        pid = p["id"]
        if pid in BUILT:
            text, note, tech, ref = BUILT[pid]
            checks.append({
                "property_id": pid,
                "quick_cmd": "./check %s --tier quick" % pid,
                "thorough_cmd": "./check %s --tier thorough" % pid,
                "evidence_file": "/verif/evidence/%s.json" % pid,
                "replay_cmd_template": "./check %s --replay {path}" % pid,
                "engine": "tlc+conformance",
                "level_claimed": {"category": "model_checking", "text": text, "design_ref": "DESIGN.md section " + ref},
                "level_note": note,
                "technique": tech,
            })
        else:
            na.append({"property_id": pid, "reason": PENDING})
    m = {
        "version": 1,
        "setup_cmd": "sh /verif/setup.sh",
        "hooks": {"guard": "BATCHIE_VERIF", "enable": "none needed: checks import /repo/src directly (PYTHONPATH) and "
                  "observe through public APIs, drop-in collaborators and driver-side patching; the guard variable is "
                  "reserved and no source file reads it",
                  "baseline_off_cmd": "cd /repo && /venv/bin/python -m pytest -ra -q -p no:cacheprovider --timeout=900 "
                                      "--continue-on-collection-errors",
                  "source_commits": [], "add_only": True},
        "engines": [{"name": "tlc+conformance", "path": "/verif/check",
                     "serves_properties": [c["property_id"] for c in checks],
                     "kind_free_text": "TLA+ specifications in /verif/specs checked by TLC 1.8; bound to the code by "
                                       "replaying TLC-exported states/transitions into the real objects and by "
                                       "validating recorded executions against Trace*.tla"}],
        "checks": checks,
        "not_applicable": na,
        "notes": "See DESIGN.md. Exit 2 = machinery failure (never a verdict). known_findings.json lists recorded defects.",
    }
    with open(os.path.join(ROOT, "MANIFEST.json"), "w") as fh:
        json.dump(m, fh, indent=1)
    print("checks:", len(checks), "not_applicable:", len(na))


if __name__ == "__main__":
    main()
