"""Shared driver for Retro.tla / TraceRetro.tla (C11, C13)."""
import json, math, random
import numpy as np

from batchie.data import Screen, filter_dataset_to_treatments_that_appear_in_at_least_one_combo
from batchie import retrospective as R
from harness.util import outcome, bits, Interner

TREAT = ["ctl", "A", "B", "c", "Δ"]          # token 0 = control
# a treatment token is a (drug name, dose) condition: tokens 5 and 6 are further doses of the drugs of tokens 1 and 2
TOK = {0: ("ctl", 0.0), 1: ("A", 1.0), 2: ("B", 1.0), 3: ("c", 1.0), 4: ("Δ", 1.0), 5: ("A", 5.0), 6: ("B", 25.0)}
TOK_OF = {(n_, bits(d_)): t_ for t_, (n_, d_) in TOK.items()}


class RScreen:
    """a concrete input screen plus the maps needed to project any derived screen back to tokens"""

    def __init__(self, rows):
        """rows: (sample idx, (t1, t2), plate idx, observed)"""
        self.rows = rows
        n = len(rows)
        self.tn = np.array([[TOK[t][0] for t in r[1]] for r in rows], dtype=str)
        self.td = np.array([[TOK[t][1] for t in r[1]] for r in rows], dtype=float)
        self.sn = np.array(["smp%d" % r[0] for r in rows], dtype=str)
        # (observed plates carry names longer than any label a generator makes up: they must come through untouched)
        # ... and sort before or after the unobserved ones, depending on the screen
        pre = "a_" if (n + sum(r[2] for r in rows)) % 2 == 0 else ""
        self.pn = np.array([("in_plate_%d" if not r[3] else pre + "plate_observed_before_the_simulation_%d") % r[2] for r in rows], dtype=str)
        self.obs = np.array([0.11 + 0.013 * i for i in range(n)])
        self.mask = np.array([bool(r[3]) for r in rows])
        self.key2id = {}
        for i in range(n):
            self.key2id[(self.sn[i], tuple(self.tn[i]), tuple(bits(x) for x in self.td[i]), bits(self.obs[i]))] = i + 1
        self.ptok = Interner()

    def screen(self, all_observed=False):
        return Screen(treatment_names=self.tn.copy(), treatment_doses=self.td.copy(), sample_names=self.sn.copy(), plate_names=self.pn.copy(),
                      observations=self.obs.copy(), observation_mask=np.ones(len(self.rows), dtype=bool) if all_observed else self.mask.copy(),
                      control_treatment_name="ctl")

    def project(self, s):
        out = []
        dup = 1000
        for i in range(s.size):
            key = (str(s.sample_names[i]), tuple(str(x) for x in s.treatment_names[i]), tuple(bits(x) for x in s.treatment_doses[i]), bits(s.observations[i]))
            rid = self.key2id.get(key)
            if rid is None:                       # an experiment that is not an input experiment (altered / invented)
                dup += 1
                rid = dup
            smp = str(s.sample_names[i])
            out.append({"id": rid, "s": int(smp[3:]) if smp.startswith("smp") and smp[3:].isdigit() else 99,
                        "ts": [TOK_OF.get((str(x), bits(float(d))), 98) for x, d in zip(s.treatment_names[i], s.treatment_doses[i])],
                        "pl": self.ptok(str(s.plate_names[i])), "obs": bool(s.observation_mask[i])})
        return out


def random_rscreen(rnd, n, nsamp, nplates, p_obs=0.3, single=0.25, one_sample_per_plate=False, arity=2):
    pobs = [rnd.random() < p_obs for _ in range(nplates)]
    psamp = [rnd.randrange(nsamp) for _ in range(nplates)]
    rows = []
    for _ in range(n):
        p = rnd.randrange(nplates)
        s = psamp[p] if one_sample_per_plate else rnd.randrange(nsamp)
        u = rnd.random()
        if u < single:
            t = (rnd.randint(1, 4), 0) if rnd.random() < 0.5 else (0, rnd.randint(1, 4))
        elif u < single + 0.05:
            t = (0, 0)
        else:
            t = (rnd.randint(1, 4), rnd.randint(1, 4))
        if rnd.random() < 0.25:
            t = tuple(rnd.choice([x, {1: 5, 2: 6}.get(x, x)]) for x in t)          # a dose series of drug A / B
        if arity == 1:
            t = t[:1]
        elif arity > 2:
            t = t + tuple(rnd.choice([0, 0, rnd.randint(1, 4)]) for _ in range(arity - 2))
        rows.append((s, t, p, pobs[p]))
    return RScreen(rows)


OPS = {
    "seg": lambda p: R.SampleSegregatingPermutationPlateGenerator(max_plate_size=p[0]),
    "pair": lambda p: R.PairwisePlateGenerator(subset_size=p[0], anchor_size=p[1]),
    "perm": lambda p: R.PlatePermutationPlateGenerator(force_include_plate_names=["in_plate_0"] if p[0] else None),
    "mergemin": lambda p: R.MergeMinPlateSmoother(min_size=p[0]),
    "mergetb": lambda p: R.MergeTopBottomPlateSmoother(n_iterations=p[0]),
    "fixed": lambda p: R.FixedSizeSmoother(plate_size=p[0]),
    "optimal": lambda p: R.OptimalSizeSmoother(),
    "npl": lambda p: R.NPlatePerCellLineSmoother(min_n_cell_line_plates=p[0]),
    "ensemble": lambda p: R.BatchieEnsemblePlateSmoother(min_size=p[0], n_iterations=p[1], min_n_cell_line_plates=p[2]),
}
SINGLE_SAMPLE_OPS = {"mergemin", "mergetb", "npl", "ensemble"}
_OBJ = {}


def call(op, rs, params, seed):
    """returns a TraceRetro trace, or None when the operation did not return (allowed by the properties)"""
    rng = np.random.default_rng(seed)
    t = {"op": op, "p1": params[0] if params else 0, "p2": params[1] if len(params) > 1 else 0, "p3": params[2] if len(params) > 2 else 0,
         "fn": 0, "fd": 1, "test": []}
    if op in OPS:
        scr = rs.screen()
        # one generator / smoother object per configuration, used again for every later screen and seed (a loop over replicates in one
        # process does that): the objects are configuration, what a call returns depends on the screen and the generator it is given
        obj = _OBJ.get((op, tuple(params)))
        if obj is None:
            obj = _OBJ[(op, tuple(params))] = OPS[op](params)
        st, r = outcome(obj.generate_plates if op in ("seg", "pair", "perm") else obj.smooth_plates, scr, rng)
    elif op == "cover":
        scr = rs.screen(all_observed=True)
        st, r = outcome(R.SparseCoverPlateGenerator(reveal_single_treatment_experiments=bool(params[0])).generate_and_unmask_initial_plate, scr, rng)
    elif op == "combofilter":
        scr = rs.screen()
        st, r = outcome(filter_dataset_to_treatments_that_appear_in_at_least_one_combo, scr)
    elif op in ("mergemin_holdout", "mergetb_holdout"):
        # the prepare step's order: smooth first, split afterwards - the hold-out split is handed the very object the smoother returned
        # (for a screen without observed plates that is the screen the smoother merged in place)
        orig = rs.screen()
        sm = OPS[op.split("_")[0]]((params[0],))
        st, r = outcome(sm.smooth_plates, orig, rng)
        if st == "ok":
            scr = r
            before = rs.project(scr)
            t.update({"op": "holdout", "fn": params[1], "fd": params[2], "via": op, "via_params": list(params), "orig": rs.project(rs.screen())})
            st, r = outcome(R.create_plate_balanced_holdout_set_among_masked_plates, scr, params[1] / params[2], rng)
            if st == "ok":
                t["test"] = rs.project(r[1])
                r = r[0]
                t["inp"] = before
                t["out"] = rs.project(r)
                return t, None
    elif op in ("holdout", "random_holdout"):
        scr = rs.screen()
        t["fn"], t["fd"] = params
        f = R.create_plate_balanced_holdout_set_among_masked_plates if op == "holdout" else R.create_random_holdout
        st, r = outcome(f, scr, params[0] / params[1], rng)
        if st == "ok":
            if r[0].size == 0 or r[1].size == 0:
                pass
            t["test"] = rs.project(r[1])
            r = r[0]
    if st != "ok":
        return None, r
    t["inp"] = rs.project(scr)
    t["out"] = rs.project(r)
    return t, None


def make_cases(ctx, rnd, tlc_inputs):
    """(op, RScreen, params) triples: TLC-explored small inputs for seg/npl plus seeded random screens for everything"""
    cases = []
    for rows in tlc_inputs:
        rs = RScreen([(r["s"], (1, 2), r["pl"], False) for r in rows])
        for p in (1, 2, 3):
            cases.append(("seg", rs, (p,)))
            if len({(r["pl"], r["s"]) for r in rows}) == len({r["pl"] for r in rows}):
                cases.append(("npl", rs, (p,)))
    # min-merge on one sample with three (thorough: also four) plates of every size pattern over 1, 2, 4 in plate-name order, for the
    # thresholds between the sums: which two plates are "the two smallest" must not depend on where they sit (a binary heap's second
    # position is not its second smallest element)
    import itertools
    for sizes in list(itertools.product((1, 2, 4), repeat=3)) + ([] if ctx.quick else list(itertools.product((1, 2, 4), repeat=4))):
        rows_ = [(1, (1 + (i % 4), 1 + ((i // 4) % 4)), p_, False) for p_, sz in enumerate(sizes) for i in range(sz)]
        rs_ = RScreen([(s_, t_, p_, o_) for (s_, t_, p_, o_) in rows_])
        for ms in (3, 5, 6):
            cases.append(("mergemin", rs_, (ms,), 1))
    n_rand = 14 if ctx.quick else 120
    rnd2 = random.Random(4711 + ctx.seed)
    for _ in range(n_rand):
        big = random_rscreen(rnd, rnd.randint(2, 14), rnd.randint(1, 4), rnd.randint(1, 5), arity=rnd.choice([2, 2, 2, 3, 1]))
        ssp = random_rscreen(rnd, rnd.randint(2, 14), rnd.randint(1, 4), rnd.randint(1, 6), one_sample_per_plate=True, single=0.1)
        nocombo = random_rscreen(rnd, rnd.randint(2, 10), rnd.randint(1, 3), rnd.randint(1, 3), single=0.0)
        cases += [("seg", big, (rnd.randint(1, 5),)), ("pair", nocombo, (rnd.randint(1, 2), rnd.randint(0, 2))), ("pair", big, (1, 0)),
                  ("perm", big, (rnd.randint(0, 1),)), ("cover", big, (rnd.randint(0, 1),)), ("combofilter", big, ()),
                  ("fixed", big, (rnd.randint(1, 4),)), ("optimal", big, ()), ("npl", ssp, (rnd.randint(1, 3),)),
                  ("mergemin", ssp, (rnd.randint(1, 6),)), ("mergetb", ssp, (rnd.randint(1, 3),)),
                  ("ensemble", ssp, (rnd.randint(1, 5), rnd.randint(1, 2), rnd.randint(1, 2))),
                  # (its parameters come from a generator of their own, so that the other cases are the ones they were before this one was added)
                  (rnd2.choice(["mergemin_holdout", "mergetb_holdout"]), RScreen([(r_[0], r_[1], r_[2], False) for r_ in ssp.rows]),
                   (rnd2.randint(2, 6),) + rnd2.choice([(0, 1), (1, 1), (1, 2), (2, 5), (3, 4)])),
                  ("holdout", big, rnd.choice([(0, 1), (1, 1), (1, 2), (1, 4), (3, 4), (1, 8), (4, 5), (9, 10), (1, 3), (7, 10), (5, 6)])),
                  ("random_holdout", big, rnd.choice([(0, 1), (1, 1), (1, 2), (1, 4), (3, 8), (4, 5), (1, 3), (9, 10)]))]
    # plates that hold more than one sample (also with the same sample in the first and the last row): a merge smoother refuses them
    # or leaves them alone, it never merges them with anything
    for mixed_rows in ([(0, (1, 2), 0, False), (1, (1, 2), 0, False), (0, (3, 4), 0, False), (0, (1, 3), 1, False), (0, (2, 3), 2, False)],
                       [(1, (1, 2), 0, False), (0, (1, 2), 0, False), (1, (3, 4), 1, False), (1, (1, 3), 2, False)]):
        for prm in (2, 4, 9):
            cases += [("mergemin", RScreen(mixed_rows), (prm,)), ("mergetb", RScreen(mixed_rows), (1 + prm % 2,))]
    for _ in range(4 if ctx.quick else 40):
        mx = random_rscreen(rnd, rnd.randint(3, 10), 2, rnd.randint(2, 4), p_obs=0.0, single=0.0)
        cases += [("mergemin", mx, (rnd.randint(1, 8),)), ("mergetb", mx, (rnd.randint(1, 2),))]
    # enough experiments for more than ten generated plates (two-digit plate labels)
    many = RScreen([(smp, pair, 0, False) for smp in range(4) for pair in ((1, 2), (3, 4), (1, 3), (2, 4), (1, 4))] + [(0, (1, 0), 0, False), (3, (0, 4), 0, False)])
    cases += [("pair", many, (1, 0)), ("pair", many, (2, 1)), ("seg", many, (1,)), ("seg", many, (2,)), ("perm", many, (0,))]
    # fractions that are not exact in binary floating point, on plates whose size makes fraction x size a whole number
    # (for every size <= 40 the float product still has the ceiling of the exact one, so the specification's rational count applies)
    for fn, fd, size in [(4, 5, 5), (9, 10, 10), (5, 6, 6), (4, 5, 10), (7, 10, 10), (1, 3, 6)]:
        rows = [(i % 2, (1 + i % 3, 1 + (i // 3) % 3), 0, False) for i in range(size)] + [(0, (1, 2), 1, True), (1, (2, 0), 2, False)]
        cases += [("holdout", RScreen(rows), (fn, fd)), ("random_holdout", RScreen(rows), (fn, fd))]
    return cases


SMOOTH_INV = ["FixedShape", "OptimalShape", "MergeMinShape", "MergeTBShape", "ComboFilterShape", "FixedIdempotent", "SmExport"]


def smooth_cases(ctx, rnd, focus):
    """(A) Smooth.tla: the generative smoothers / combination filter satisfy the clauses on every small plate-size profile;
    (B) every profile TLC explored becomes an input of the real operation"""
    from harness import tlc
    q = ctx.quick
    scopes = [({"fixed", "optimal"}, {1}, 4 if q else 6, 4 if q else 5, 4 if q else 5, 1, 2, 1),
              ({"mergemin", "mergetb"}, {1, 2}, 4 if q else 5, 3, 6 if q else 8, 1, 2, 1),
              ({"combofilter"}, {1}, 1, 1, 1, 3, 2 if q else 3, 3),
              ({"inputs"}, {1, 2}, 1, 1, 1, 2, 2, 3)]
    out = []
    for ops, samples, mp, ms, maxparam, arity, ntreat, nrows in scopes:
        c = {"NRows": nrows, "Samples": samples, "MaxParam": maxparam, "BugSeg": False, "BugNPL": False, "Export": True, "MaxPlates": mp,
             "MaxSize": ms, "SmOps": ops, "Arity": arity, "NTreat": ntreat, "BugOpt": False}
        note = "generative %s on all profiles: <=%d plates of <=%d experiments, %d sample(s), params <=%d" % (
            "/".join(sorted(ops)), mp, ms, len(samples), maxparam)
        if "inputs" in ops:
            note = "enumeration of every screen of <=%d rows (2 samples, 5 treatment shapes, 2 plates, any observed pattern) as inputs" % nrows
        r = ctx.tlc("Smooth", tlc.cfg(init="SmInit", next_="SmNext", constants=c, invariants=SMOOTH_INV + ["InputsWellFormed"]),
                    note=note, coverage=True, workers=16)
        if r.violation:
            ctx.violation("design-level: Smooth violates %s" % r.violation, {"kind": "tlc", "tlc": r.violation_text[:3000]})
        ctx.need_coverage(r, [{"fixed": "Fixed", "optimal": "Optimal", "mergemin": "MergeMin", "mergetb": "MergeTB", "combofilter": "ComboFilter",
                               "inputs": "Pass"}[o] for o in ops])
        got = r.by_tag("smooth-in")
        budget = (250 if focus == "C13" else 120) if q else 2000
        if "inputs" in ops:
            budget = 60 if q else 1500
        if len(got) > budget:
            got = rnd.sample(got, budget)
        for e in got:
            if e["op"] == "inputs":
                # every small screen shape, through the operations that are specified relationally only
                rs = RScreen([(x["s"], tuple(x["ts"]), x["pl"], bool(x["obs"])) for x in e["rows"]])
                out += [("seg", rs, (rnd.randint(1, 2),), 1), ("pair", rs, (1, rnd.randint(0, 1)), 1), ("perm", rs, (0,), 1), ("cover", rs, (rnd.randint(0, 1),), 1),
                        ("holdout", rs, rnd.choice([(1, 2), (1, 4), (1, 1)]), 1), ("random_holdout", rs, rnd.choice([(1, 2), (1, 4)]), 1), ("combofilter", rs, (), 1)]
                continue
            relabel = {}
            if e["op"] in ("mergemin", "mergetb"):
                # TLC explores size profiles up to the order of the plates; the order in which the real screen lists them (by name)
                # is a free choice of the input: permute the labels within each sample
                for smp in {x["s"] for x in e["rows"]}:
                    labs = sorted({x["pl"] for x in e["rows"] if x["s"] == smp})
                    relabel.update(dict(zip(labs, rnd.sample(labs, len(labs)))))
            rs = RScreen([(x["s"], tuple(x["ts"]), relabel.get(x["pl"], x["pl"]), False) for x in e["rows"]])
            out.append((e["op"], rs, (e["param"],) if e["op"] != "optimal" and e["op"] != "combofilter" else ()))
    if focus == "C13":
        # the counterexample TLC finds when only distinct plate sizes are scored is among the inputs (vacuity of 'retains the most')
        c = {"NRows": 1, "Samples": {1}, "MaxParam": 1, "BugSeg": False, "BugNPL": False, "Export": False, "MaxPlates": 4, "MaxSize": 3,
             "SmOps": {"optimal"}, "Arity": 1, "NTreat": 1, "BugOpt": True}
        r = ctx.tlc("Smooth", tlc.cfg(init="SmInit", next_="SmNext", constants=c, invariants=["OptimalShape"]),
                    note="BugOpt: scoring distinct sizes only must violate OptimalShape", workers=4)
        if r.violation != "OptimalShape":
            raise tlc.TLCError("Smooth.tla with BugOpt=TRUE does not violate OptimalShape: the clause is vacuous in this scope")
    return out


def big_holdout(ctx):
    """C11 at study size (tens of thousands of experiments; TLC validates the small ones): the hold-out clauses evaluated in the harness -
    partition, ceil(fraction x size) from every unobserved plate, nothing from observed plates, masks as stated"""
    import time
    n_pl, per = (35, 2000) if ctx.quick else (45, 3000)
    N = n_pl * per
    rng = np.random.default_rng(ctx.seed)
    tn = np.array([["A", "B"]] * N, dtype=str)
    td = np.ones((N, 2))
    sn = np.array(["smp%d" % (i % 7) for i in range(N)], dtype=str)
    pn = np.array(["plate_%03d" % (i // per) for i in range(N)], dtype=str)
    obs = np.arange(N, dtype=float) * 1e-6 + 0.1            # the value identifies the experiment
    mask = np.array([(i // per) in (0, 7) for i in range(N)])
    scr = Screen(treatment_names=tn, treatment_doses=td, sample_names=sn, plate_names=pn, observations=obs, observation_mask=mask, control_treatment_name="ctl")
    st, r = outcome(R.create_plate_balanced_holdout_set_among_masked_plates, scr, 0.25, rng)
    ctx.evaluations += 1
    if st != "ok":
        return "hold-out split of %d experiments raised %s" % (N, r)
    train, test = r
    tr_id, te_id = np.rint((train.observations - 0.1) * 1e6).astype(int), np.rint((test.observations - 0.1) * 1e6).astype(int)
    if len(set(tr_id.tolist()) | set(te_id.tolist())) != N or len(tr_id) + len(te_id) != N:
        return "hold-out split of %d experiments is not a partition (%d + %d rows, %d distinct)" % (N, len(tr_id), len(te_id), len(set(tr_id.tolist()) | set(te_id.tolist())))
    cnt = np.bincount(te_id // per, minlength=n_pl)
    want = np.array([0 if p in (0, 7) else math.ceil(per * 0.25) for p in range(n_pl)])
    if not np.array_equal(cnt, want):
        bad = [int(p) for p in np.nonzero(cnt != want)[0]][:5]
        return "hold-out split of %d experiments: plates %s give %s experiments to the hold-out, stated ceil(0.25 x %d) from unobserved plates and none from observed ones" % (
            N, bad, [int(cnt[p]) for p in bad], per)
    if not test.observation_mask.all() or not np.array_equal(train.observation_mask, np.isin(tr_id // per, (0, 7))):
        return "hold-out split of %d experiments: masks are not as stated (test observed, training mask unchanged)" % N
    return None


def run_retro(ctx, focus):
    from harness import tlc
    from harness.tracecheck import validate
    rnd = random.Random(ctx.seed)
    # (A) design level: the generative transcriptions of the two operations with a case analysis on counts, all small screens
    nr = 5 if ctx.quick else 6
    c = {"NRows": nr, "Samples": {1, 2, 3}, "MaxParam": 3, "BugSeg": False, "BugNPL": False, "Export": True}
    r = ctx.tlc("Retro", tlc.cfg(constants=c, invariants=["SegShape", "NPLShape", "ExportCase"]),
                note="generative seg / per-sample-minimum transcriptions, %d rows, 3 samples, params 1..3" % nr, coverage=True, workers=8)
    if r.violation:
        ctx.violation("design-level: Retro violates %s" % r.violation, {"kind": "tlc", "tlc": r.violation_text[:3000]})
    ctx.need_coverage(r, ["Seg", "NPL"])
    seen, tlc_inputs = set(), []
    for e in r.by_tag("retro-in"):
        key = json.dumps(e["rows"], sort_keys=True)
        if key not in seen:
            seen.add(key)
            tlc_inputs.append(e["rows"])
    if len(tlc_inputs) > (90 if ctx.quick else 1000):
        tlc_inputs = rnd.sample(tlc_inputs, 90 if ctx.quick else 1000)
    cases = make_cases(ctx, rnd, tlc_inputs)
    n_plain = len(cases)
    cases += smooth_cases(ctx, rnd, focus)
    seeds = 2 if ctx.quick else 4
    traces, not_returned, returned_by_op = [], {}, {}
    for ci, case in enumerate(cases):
        op, rs, params = case[:3]
        for k in range((seeds if op not in ("combofilter", "optimal") else 1) if len(case) == 3 else case[3]):
            t, err = call(op, rs, params, ctx.seed * 1000 + k)
            if t is not None:
                t["gen"] = ci >= n_plain
            ctx.evaluations += 1
            if t is None:
                not_returned[op] = not_returned.get(op, 0) + 1
                continue
            if focus == "C13" and op in SINGLE_SAMPLE_OPS:
                pass
            returned_by_op[op] = returned_by_op.get(op, 0) + 1
            traces.append(t)
    never = [op for op in list(OPS) + ["cover", "combofilter", "holdout", "random_holdout"] if returned_by_op.get(op, 0) == 0]
    if never:
        raise tlc.TLCError("vacuity guard: operations that never returned on any input: %s (%s)" % (never, not_returned))
    bad = validate(ctx, "TraceRetro", traces, decide="Decide", next_="TNext", init="TInit", chunk=3000,
                   constants={"NRows": 1, "Samples": {1}, "MaxParam": 1, "BugSeg": False, "BugNPL": False, "Export": False, "Focus": focus})
    gens = [t for t in traces if t["op"] == "seg" and len(t["out"]) >= 2]
    if not bad and gens:
        from harness.tracecheck import selftest

        def corrupt(t):
            if focus == "C11":
                t["out"] = t["out"][1:]
                return "one experiment removed from a generator's logged output"
            t["out"][0]["s"], t["out"][0]["id"] = t["out"][0]["s"], t["out"][0]["id"]
            t["out"][0]["pl"] = t["out"][1]["pl"] if t["out"][1]["s"] != t["out"][0]["s"] else 424242
            for r in t["out"]:
                r["pl"] = t["out"][0]["pl"]
            return "every generated experiment given the same plate label in the log"
        gg = [t for t in gens if len({r["s"] for r in t["out"] if not r["obs"]}) >= 2] if focus == "C13" else gens
        if gg:
            selftest(ctx, "TraceRetro", gg[0], corrupt, decide="Decide", next_="TNext", init="TInit",
                     constants={"NRows": 1, "Samples": {1}, "MaxParam": 1, "BugSeg": False, "BugNPL": False, "Export": False, "Focus": focus})
    shown = 0
    for i, clause in bad:
        t = traces[i]
        key = classify(focus, t, clause)
        what = "%s%s on %d experiments: '%s' fails; input %s -> output %s" % (
            t["op"], (t["p1"], t["p2"], t["p3"]), len(t["inp"]), clause, json.dumps(t["inp"])[:260], json.dumps(t["out"])[:260])
        if key and ctx.is_known(key):
            ctx.finding(key, what, {"kind": "retro", "trace": t, "clause": clause})
        elif shown < 4:
            ctx.violation(what, {"kind": "retro", "trace": t, "clause": clause})
            shown += 1
    if focus == "C13":
        # conformance of the generative transcriptions (Smooth.tla) with the real smoothers: not a verdict, a drift note
        gen = [t for t in traces if t.get("gen") or t["op"] in ("fixed", "optimal", "mergemin", "mergetb", "combofilter")]
        gen = [t for t in gen if all(not r["obs"] for r in t["inp"])]
        before = ctx.traces
        drift = validate(ctx, "TraceSmooth", gen, decide="Decide", next_="TNext", init="TInit", chunk=3000, note="generative transcriptions vs real smoothers",
                         constants={"NRows": 1, "Samples": {1}, "MaxParam": 1, "BugSeg": False, "BugNPL": False, "Export": False, "MaxPlates": 1, "MaxSize": 1,
                                    "SmOps": {"fixed"}, "Arity": 1, "NTreat": 1, "BugOpt": False})
        cand = [t for i, t in enumerate(gen) if t["op"] in ("fixed", "optimal") and len(t["out"]) >= 2 and i not in {d[0] for d in drift}]
        if cand:
            from harness.tracecheck import selftest

            def corrupt2(t):
                t["out"] = t["out"][1:]
                return "one kept experiment removed from a size smoother's logged output"
            selftest(ctx, "TraceSmooth", cand[0], corrupt2, decide="Decide", next_="TNext", init="TInit",
                     constants={"NRows": 1, "Samples": {1}, "MaxParam": 1, "BugSeg": False, "BugNPL": False, "Export": False, "MaxPlates": 1, "MaxSize": 1,
                                "SmOps": {"fixed"}, "Arity": 1, "NTreat": 1, "BugOpt": False})
        ctx.traces = before
        rejected_by_verdict = {id(traces[i]) for i, _ in bad}
        only = [(i, c) for i, c in drift if id(gen[i]) not in rejected_by_verdict]
        ctx.extra["model_drift"] = len(only)
        ctx.extra["conformance_traces_smooth"] = len(gen)
        if only:
            i, c = only[0]
            print("NOTE model-drift property=C13: %d real smoother call(s) satisfy the clauses of C13 but are not outcomes of the generative transcription in "
                  "Smooth.tla (first: %s%s at '%s'); the transcription needs updating" % (len(only), gen[i]["op"], (gen[i]["p1"],), c))
    if focus == "C11":
        msg = big_holdout(ctx)
        if msg:
            ctx.violation(msg, {"kind": "big-holdout"})
    ctx.extra["calls_returned"] = returned_by_op
    ctx.extra["calls_not_returned"] = not_returned
    ctx.sample({"op": traces[0]["op"], "params": [traces[0]["p1"]], "inp": traces[0]["inp"], "out": traces[0]["out"]})
    ctx.assumptions += ["an operation that raises is outside 'whenever it returns' (counted in evidence, never a violation)",
                        "experiment identity = sample name, treatment names, doses and the (distinct) observation bits"]


def classify(focus, t, clause):
    return None


def replay_retro(ctx, focus, rp):
    from harness.tracecheck import validate
    t = rp["trace"]
    # rebuild the input from its projection and call again with a few seeds
    rows = [(r["s"], tuple(r["ts"]), r["pl"], r["obs"]) for r in t.get("orig", t["inp"])]
    rs = RScreen(rows)
    params = tuple(x for x in ((t["fn"], t["fd"]) if t["op"] in ("holdout", "random_holdout") else (t["p1"], t["p2"], t["p3"])))
    if t.get("via"):
        params = tuple(t["via_params"])
    trs = []
    for k in range(8):
        t2, err = call(t.get("via", t["op"]), rs, params, k)
        if t2:
            trs.append(t2)
    bad = validate(ctx, "TraceRetro", trs, decide="Decide", next_="TNext", init="TInit",
                   constants={"NRows": 1, "Samples": {1}, "MaxParam": 1, "BugSeg": False, "BugNPL": False, "Export": False, "Focus": focus})
    for i, clause in bad[:2]:
        ctx.violation("replay: '%s' fails" % clause, rp)
