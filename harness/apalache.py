"""Optional extra: Apalache (symbolic, unbounded integers) on the pure chunk arithmetic.  Strictly time-boxed; if the tool is
missing or does not finish, the step is recorded as skipped and no claim depends on it (TLC's bounded result is the claim)."""
import os, shutil, subprocess, tempfile, time

SPECS = os.path.join(os.path.dirname(os.path.dirname(os.path.abspath(__file__))), "specs")


def chunk_arith(ctx, timeout=240):
    exe = shutil.which("apalache-mc")
    if not exe:
        ctx.extra["apalache"] = {"status": "skipped: apalache-mc not on PATH"}
        return
    work = tempfile.mkdtemp(prefix="verif-apa-")
    t0 = time.time()
    try:
        shutil.copy(os.path.join(SPECS, "ChunkArith.tla"), work)
        try:
            p = subprocess.run([exe, "check", "--inv=Inv", "--length=0", "--out-dir=" + os.path.join(work, "out"), "ChunkArith.tla"], cwd=work,
                               stdout=subprocess.PIPE, stderr=subprocess.STDOUT, text=True, timeout=timeout)
        except subprocess.TimeoutExpired:
            ctx.extra["apalache"] = {"status": "skipped: no result within %ds" % timeout}
            return
        out = p.stdout
        if "The outcome is: NoError" in out:
            ctx.extra["apalache"] = {"status": "NoError", "module": "ChunkArith", "what": "chunk arithmetic for all totals, chunk counts and chunk indexes (unbounded integers, SMT)",
                                     "wall_s": round(time.time() - t0, 1)}
        elif "The outcome is: Error" in out or "invariant" in out and "violated" in out:
            ctx.violation("design-level (Apalache): the chunk arithmetic of the specification violates Inv for some unbounded total / k / c", {"kind": "apalache", "log": out[-3000:]})
        else:
            ctx.extra["apalache"] = {"status": "skipped: unrecognised output", "tail": out[-300:]}
    finally:
        shutil.rmtree(work, ignore_errors=True)
