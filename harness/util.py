"""Small helpers shared by the drivers."""
import hashlib, struct
import numpy as np


def outcome(fn, *a, **k):
    """Call real batchie code; an exception is an observable outcome, never a driver crash."""
    try:
        return ("ok", fn(*a, **k))
    except Exception as e:  # noqa: BLE001 - every exception of the code under test is an outcome
        return ("exc", "%s: %s" % (type(e).__name__, str(e)[:200]))
    except SystemExit as e:  # a command-line program that exits (argparse error, sys.exit) has also produced an outcome
        return ("exc", "SystemExit: %s" % (e.code,))


def bits(x):
    """IEEE-754 bit pattern of a float64 as hex (bit-for-bit identity = string equality)."""
    return struct.pack(">d", float(x)).hex()


def arr_digest(a):
    a = np.asarray(a)
    if a.dtype.kind in "US" or a.dtype == object:
        b = "\x00".join(str(x) for x in a.ravel().tolist()).encode("utf-8", "surrogatepass")
    else:
        b = np.ascontiguousarray(a).tobytes()
    return hashlib.sha1(repr(a.shape).encode() + str(a.dtype.kind).encode() + b).hexdigest()[:16]


class Interner:
    """value -> small integer token (first-seen order); equal values get equal tokens."""

    def __init__(self):
        self.tok = {}
        self.val = []

    def __call__(self, v):
        if v not in self.tok:
            self.tok[v] = len(self.val) + 1
            self.val.append(v)
        return self.tok[v]


class verbose_logging:
    """context manager: the batchie logger at DEBUG (what --verbose sets in every command), output discarded.
    Behaviour must not depend on how verbose a run is."""

    def __enter__(self):
        import logging
        self.lg = logging.getLogger("batchie")
        self.prev = (logging.root.manager.disable, self.lg.level)
        self.h = logging.NullHandler()
        logging.disable(logging.NOTSET)
        self.lg.setLevel(logging.DEBUG)
        self.lg.addHandler(self.h)
        return self

    def __exit__(self, *a):
        import logging
        self.lg.removeHandler(self.h)
        self.lg.setLevel(self.prev[1])
        logging.disable(self.prev[0])
        return False
