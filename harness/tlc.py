"""Run TLC on a module of /verif/specs and parse what it printed.

One call = one TLC process in a private scratch directory (removed afterwards).  The result carries
the state counts, every JSON record the specification printed with PrintT(ToJson(..)), the
violated property (if any) with TLC's counterexample text, and per-action coverage counts.
"""
import json, os, re, shutil, subprocess, tempfile, time

SPECS = os.path.join(os.path.dirname(os.path.dirname(os.path.abspath(__file__))), "specs")
JAR = "/opt/veriftools/tla/tla2tools.jar:/opt/veriftools/tla/CommunityModules-deps.jar"


class TLCError(Exception):
    """Machinery failure (TLC could not run / parse error / evaluation error): exit code 2."""


class TLCResult:
    def __init__(self):
        self.generated = 0
        self.distinct = 0
        self.depth = 0
        self.records = []          # JSON records printed by the spec
        self.violation = None      # name of violated invariant/property
        self.violation_text = ""   # TLC's counterexample
        self.coverage = {}         # action name -> (distinct, total)
        self.stdout = ""
        self.wall = 0.0
        self.cmd = ""

    def by_tag(self, tag):
        """records TLC printed with this tag, in a canonical order (TLC's workers print in a different order on every run; whatever is
        sampled from the records with a seeded generator must not depend on that)"""
        rs = [r for r in self.records if isinstance(r, dict) and r.get("tag") == tag]
        return sorted(rs, key=lambda r: json.dumps(r, sort_keys=True))


def _parse(out, res):
    for line in out.splitlines():
        s = line.strip()
        if s.startswith('"{') or s.startswith('"['):
            try:
                res.records.append(json.loads(json.loads(s)))
            except Exception:
                pass
            continue
        m = re.match(r"(\d+) states generated, (\d+) distinct states found", s)
        if m:
            res.generated, res.distinct = int(m.group(1)), int(m.group(2))
        m = re.match(r"The depth of the complete state graph search is (\d+)", s)
        if m:
            res.depth = int(m.group(1))
        m = re.match(r"Error: Invariant (\S+) is violated", s)
        if m and res.violation is None:
            res.violation = m.group(1)
        m = re.match(r"Error: Action property (\S+) is violated", s)
        if m and res.violation is None:
            res.violation = m.group(1)
        if s.startswith("Error: Temporal properties were violated") and res.violation is None:
            res.violation = "temporal"
        if s.startswith("Error: Deadlock reached") and res.violation is None:
            res.violation = "deadlock"
        m = re.match(r"<(\w+) line \d+, col \d+ to line \d+, col \d+ of module \w+(?: \([\d ]+\))?>: (\d+):(\d+)", s)
        if m:
            res.coverage[m.group(1)] = (int(m.group(2)), int(m.group(3)))
    if res.violation:
        i = out.find("Error:")
        res.violation_text = out[i:i + 20000]


def run(module, cfg, *, workers=16, env=None, timeout=3600, simulate=None, depth=None, seed=None,
        coverage=False, extra=(), files=None, allow_violation=True, heap="8g", dfs=False):
    """module: name of a .tla file in specs/ (without extension).  cfg: text of the .cfg file.
    files: dict name->text of extra files placed next to the spec (e.g. trace JSON)."""
    res = TLCResult()
    work = tempfile.mkdtemp(prefix="verif-tlc-")
    try:
        for f in os.listdir(SPECS):
            if f.endswith(".tla"):
                shutil.copy(os.path.join(SPECS, f), work)
        with open(os.path.join(work, module + ".cfg"), "w") as fh:
            fh.write(cfg)
        for name, text in (files or {}).items():
            with open(os.path.join(work, name), "w") as fh:
                fh.write(text)
        jopts = ["-XX:+UseParallelGC", "-Xmx" + heap, "-Xss128m"]
        if dfs:
            jopts.append("-Dtlc2.tool.queue.IStateQueue=StateDeque")
        cmd = ["java"] + jopts + ["-cp", JAR, "tlc2.TLC", "-workers", str(workers), "-metadir",
                                  os.path.join(work, "meta"), "-noGenerateSpecTE"]
        if simulate is not None:
            cmd += ["-simulate", "num=%d" % simulate]
            if depth:
                cmd += ["-depth", str(depth)]
        if seed is not None:
            cmd += ["-seed", str(seed)]
        if coverage:
            cmd += ["-coverage", "1"]
        cmd += list(extra) + [module + ".tla"]
        e = dict(os.environ)
        e.update(env or {})
        res.cmd = " ".join(cmd[cmd.index("tlc2.TLC"):])
        t0 = time.time()
        try:
            p = subprocess.run(cmd, cwd=work, env=e, stdout=subprocess.PIPE, stderr=subprocess.STDOUT,
                               timeout=timeout, text=True, errors="replace")
        except subprocess.TimeoutExpired:
            raise TLCError("TLC timed out after %ss on %s" % (timeout, module))
        res.wall = time.time() - t0
        res.stdout = p.stdout
        _parse(p.stdout, res)
        bad = re.search(r"(Parsing or semantic analysis failed|\*\*\* Errors|Error: .*(evaluating|Attempted|"
                        r"was not enabled|TLC threw|java\.lang|In evaluation|The exception))", p.stdout)
        if res.violation is None and (bad or (p.returncode != 0 and "No error has been found" not in p.stdout
                                              and simulate is None)):
            i = p.stdout.find("Error")
            raise TLCError("TLC failed on %s (rc=%s):\n%s\n...\n%s" % (module, p.returncode, p.stdout[max(i, 0):i + 1800],
                                                                   p.stdout[-600:]))
        if res.violation and not allow_violation:
            raise TLCError("unexpected violation of %s in %s:\n%s" % (res.violation, module, res.violation_text[:3000]))
        return res
    finally:
        shutil.rmtree(work, ignore_errors=True)


def cfg(init="Init", next_="Next", invariants=(), properties=(), constants=None, constraint=None,
        action_constraint=None, spec=None, deadlock=False, postcondition=None, view=None, symmetry=None):
    lines = []
    if spec:
        lines.append("SPECIFICATION " + spec)
    else:
        lines += ["INIT " + init, "NEXT " + next_]
    for k, v in (constants or {}).items():
        lines.append("CONSTANT %s = %s" % (k, tla(v)))
    for i in invariants:
        lines.append("INVARIANT " + i)
    for p in properties:
        lines.append("PROPERTY " + p)
    if constraint:
        lines.append("CONSTRAINT " + constraint)
    if action_constraint:
        lines.append("ACTION_CONSTRAINT " + action_constraint)
    if postcondition:
        lines.append("POSTCONDITION " + postcondition)
    if view:
        lines.append("VIEW " + view)
    if symmetry:
        lines.append("SYMMETRY " + symmetry)
    lines.append("CHECK_DEADLOCK " + ("TRUE" if deadlock else "FALSE"))
    return "\n".join(lines) + "\n"


def tla(v):
    """Python value -> TLA+ literal usable in a .cfg file."""
    if isinstance(v, bool):
        return "TRUE" if v else "FALSE"
    if isinstance(v, int):
        return str(v)
    if isinstance(v, str):
        return '"%s"' % v
    if isinstance(v, (set, frozenset)):
        return "{" + ", ".join(tla(x) for x in sorted(v, key=repr)) + "}"
    if isinstance(v, (list, tuple)):
        return "<<" + ", ".join(tla(x) for x in v) + ">>"
    if isinstance(v, dict):
        return "[" + ", ".join("%s |-> %s" % (k, tla(x)) for k, x in v.items()) + "]"
    raise TypeError(v)
