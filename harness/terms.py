"""Term interpreter: evaluates a term exported by TLC (Terms.tla) in IEEE double, together with its magnitude
(the same term with every leaf and every difference replaced by absolute values), for magnitude-scaled comparison."""
import math
import numpy as np
from scipy.special import expit as _expit, logit as _logit, logsumexp as _lse


def ev(t, env):
    """env: name -> numpy array (or nested list / dict keyed by tuple / scalar).  returns (value, magnitude)"""
    op = t["op"]
    if op == "ref":
        a = env[t["a"]]
        idx = tuple(t["i"])
        if isinstance(a, dict):
            v = a[idx]
        elif isinstance(a, np.ndarray):
            v = a[idx] if idx else a[()]
        elif idx:
            v = a
            for i in idx:
                v = v[i]
        else:
            v = a
        v = float(v)
        return v, abs(v)
    if op == "num":
        v = t["n"] / t["d"]
        return v, abs(v)
    if op == "add":
        vs = [ev(x, env) for x in t["xs"]]
        return math.fsum(v for v, _ in vs), math.fsum(m for _, m in vs)
    if op == "mul":
        v, m = 1.0, 1.0
        for x in t["xs"]:
            a, b = ev(x, env)
            v, m = v * a, m * b
        return v, m
    if op == "neg":
        v, m = ev(t["x"], env)
        return -v, m
    if op == "div":
        (a, ma), (b, mb) = ev(t["x"], env), ev(t["y"], env)
        return (a / b if b != 0 else math.copysign(math.inf, a) if a != 0 else math.nan), (ma / abs(b) if b != 0 else math.inf)
    if op == "sq":
        v, m = ev(t["x"], env)
        return v * v, m * m
    if op == "sqrt":
        v, m = ev(t["x"], env)
        return math.sqrt(v), math.sqrt(m)
    if op == "mean":
        vs = [ev(x, env) for x in t["xs"]]
        n = len(vs)
        return math.fsum(v for v, _ in vs) / n, math.fsum(m for _, m in vs) / n
    if op == "var":
        vs = [ev(x, env) for x in t["xs"]]
        n = len(vs)
        mu = math.fsum(v for v, _ in vs) / n
        mm = math.fsum(m for _, m in vs) / n
        return math.fsum((v - mu) ** 2 for v, _ in vs) / n, math.fsum((m + mm) ** 2 for _, m in vs) / n
    if op == "log":
        v, m = ev(t["x"], env)
        r = math.log(v) if v > 0 else (-math.inf if v == 0 else math.nan)
        return r, max(abs(r), 1.0) if math.isfinite(r) else 1.0
    if op == "exp":
        v, m = ev(t["x"], env)
        try:
            r = math.exp(v)
        except OverflowError:
            r = math.inf
        return r, (r * (1.0 + m)) if math.isfinite(r) else math.inf
    if op == "expit":
        v, m = ev(t["x"], env)
        return float(_expit(v)), 1.0 + m
    if op == "logit":
        v, m = ev(t["x"], env)
        r = float(_logit(v))
        return r, max(abs(r), 1.0) + m / max(min(v, 1 - v), 1e-300) if 0 < v < 1 else 1.0
    if op == "clip":
        v, m = ev(t["x"], env)
        lo, hi = t["lo"]["n"] / t["lo"]["d"], t["hi"]["n"] / t["hi"]["d"]
        return min(max(v, lo), hi) if v == v else v, max(m, abs(lo), abs(hi))
    if op == "clipt":          # clip with a term as lower bound
        v, m = ev(t["x"], env)
        lo, _ = ev(t["lo"], env)
        hi, _ = ev(t["hi"], env)
        return min(max(v, lo), hi) if v == v else v, max(m, abs(lo))
    if op == "lse":
        vs = [ev(x, env) for x in t["xs"]]
        r = float(_lse([v for v, _ in vs]))
        return r, max(abs(r), max((m for _, m in vs), default=1.0), 1.0)
    if op == "f32":
        v, m = ev(t["x"], env)
        return float(np.float32(v)), m
    raise ValueError("unknown term op %r" % op)


def close(got, want, mag, eps):
    if want != want:
        return got != got
    if math.isinf(want) or math.isinf(got):
        return got == want
    return abs(got - want) <= eps * max(mag, 1e-300)
