"""End-to-end run: the REAL orchestration script driving the REAL command-line programs in-process (no Nextflow),
validated by TracePipeline.  Used by C19 (step order, inputs, excludes) and, in the thorough tier, by C03 / C06 / C12
for their own clauses of the composed behaviour."""
import glob, hashlib, json, os, random, shutil, sys, tempfile
import numpy as np

from batchie.core import ThetaHolder
from batchie.data import Screen
from harness.drivers.c19 import load_script
from harness.util import outcome, bits

CLAUSE_OWNER = {"step-index": "C19", "input-screen-is-the-predecessor's-output": "C19", "excludes-are-the-batch-so-far": "C19",
                "run-ends-when-nothing-is-left": "C19", "selected-plate-unobserved-and-not-in-batch": "C06",
                "one-model-per-iteration": "C19", "id-mappings-constant-through-the-run": "C03",
                "exactly-the-selected-plate-revealed": "C12", "metadata-counter": "C12"}


def _cli(module_name, argv):
    import importlib
    mod = importlib.import_module("batchie.cli." + module_name)
    old = sys.argv
    sys.argv = [module_name] + [str(a) for a in argv]
    try:
        mod.main()
    finally:
        sys.argv = old


def proj(path):
    s = Screen.load_h5(path)
    ob = sorted(int(p.plate_id) for p in s.plates if p.is_observed)
    un = sorted(int(p.plate_id) for p in s.plates if not p.is_observed)
    h = hashlib.sha1(repr([x.tolist() for x in s.sample_mapping] + [x.tolist() for x in s.treatment_mapping]).encode()).hexdigest()[:12]
    return {"observed": ob, "unobserved": un, "maps": h}


def thetas_digest(paths):
    h = hashlib.sha1()
    for p in sorted(paths):
        for t in ThetaHolder.load_h5(p).thetas:
            for k in sorted(t.__dict__):
                v = t.__dict__[k]
                h.update(v.tobytes() if isinstance(v, np.ndarray) else bits(v).encode())
    return h.hexdigest()[:12]


class Interrupted(BaseException):
    pass


class RealPipe:
    def __init__(self, n_chains=1, n_chunks=2, seed=0, crash_before_call=None):
        self.n_chains, self.n_chunks, self.seed = n_chains, n_chunks, seed
        self.events, self.prepared = [], None
        self.tok = {}
        self.calls, self.crash_before_call = 0, crash_before_call

    def cli(self, name, argv):
        """one command-line program = one process of the workflow; the run may be interrupted before any of them"""
        if self.crash_before_call is not None and self.calls == self.crash_before_call:
            self.crash_before_call = None
            raise Interrupted()
        self.calls += 1
        _cli(name, argv)

    def t(self, digest):
        return self.tok.setdefault(digest, len(self.tok) + 1)

    def check_call(self, cmd, cwd=None):
        a, i = {}, 0
        while i < len(cmd):
            if cmd[i].startswith("--excludes="):
                a["excludes"] = cmd[i].split("=", 1)[1]
            elif cmd[i].startswith("-") and i + 1 < len(cmd):
                a[cmd[i].lstrip("-")] = cmd[i + 1]
                i += 1
            i += 1
        out = a["outdir"]
        rel = os.path.relpath(out)
        parts = out.rstrip("/").split("/")
        step = [int(parts[-2].split("_")[1]), int(parts[-1].split("_")[1])]

        def d(name):
            p = os.path.join(out, name)
            os.makedirs(p, exist_ok=True)
            return p
        excl = [int(x) for x in a.get("excludes", "").split(",") if x]
        if a["mode"] == "retrospective":
            if a.get("initialize") == "true":
                tr, te = os.path.join(d("prepare"), "training.screen.h5"), os.path.join(d("prepare"), "test.screen.h5")
                self.cli("prepare_retrospective_simulation", ["--data", a["screen"], "--training-output", tr, "--test-output", te, "--plate-generator",
                                                          "SampleSegregatingPermutationPlateGenerator", "--plate-generator-param", "max_plate_size=3",
                                                          "--holdout-fraction", "0.25", "--seed", self.seed])
                self.prepared = proj(tr)
                screen = tr
            else:
                screen = a["training_screen"]
            ths = []
            for c in range(self.n_chains):
                fn = os.path.join(d("train"), "thetas_%d.h5" % c)
                self.cli("train_model", ["--data", screen, "--model", "SparseDrugCombo", "--model-param", "n_embedding_dimensions=2", "--n-burnin", 1,
                                     "--n-samples", 3, "--thin", 1, "--chain-index", c, "--n-chains", self.n_chains, "--output", fn, "--seed", self.seed])
                ths.append(fn)
            dms = []
            for c in range(self.n_chunks):
                fn = os.path.join(d("distance"), "distance_matrix_chunk_%d.h5" % c)
                self.cli("calculate_distance_matrix", ["--data", screen, "--thetas"] + ths + ["--distance-metric", "MSEDistance", "--chunk-index", c,
                                                  "--n-chunks", self.n_chunks, "--output", fn])
                dms.append(fn)
        else:
            screen = a["screen"]
            ths, dms = sorted(glob.glob(a["thetas"])), sorted(glob.glob(a["distance_matrix"]))
        scs = []
        for c in range(self.n_chunks):
            fn = os.path.join(d("score"), "score_chunk_%d.h5" % c)
            self.cli("calculate_scores", ["--data", screen, "--thetas"] + ths + ["--distance-matrix"] + dms + ["--chunk-index", c, "--n-chunks", self.n_chunks,
                                      "--scorer", "GaussianDBALScorer", "--seed", 12, "--output", fn] + (["--batch-plate-ids"] + excl if excl else []))
            scs.append(fn)
        sel = os.path.join(d("select"), "selected_plate")
        self.cli("select_next_plate", ["--data", screen, "--scores"] + scs + ["--output", sel] + (["--batch-plate-id"] + excl if excl else []))
        chosen = int(open(sel).read().strip())
        adv = os.path.join(d("reveal"), "advanced_screen.h5")
        self.cli("reveal_plate", ["--screen", screen, "--plate-id", chosen, "--output", adv])
        meta = os.path.join(d("metadata"), "screen_metadata.json")
        self.cli("extract_screen_metadata", ["--screen", adv, "--output", meta])
        self.events.append({"s": step, "input": proj(screen), "thetas": self.t(thetas_digest(ths)), "excl": excl, "selected": chosen,
                            "output": proj(adv), "meta": int(json.load(open(meta))["n_unobserved_plates"])})
        return 0


def input_screen(path, rnd, n_samples=2, per_sample=9):
    rows = []
    for s in range(n_samples):
        for i in range(per_sample):
            a, b = rnd.randint(1, 3), rnd.randint(1, 3)
            if i % 4 == 3:
                b = 0
            rows.append((s, a, b))
    names = ["ctl", "dA", "dB", "dC"]
    tn = np.array([[names[a], names[b]] for _, a, b in rows], dtype=str)
    td = np.array([[1.0 if a else 0.0, 1.0 if b else 0.0] for _, a, b in rows])
    sn = np.array(["line%d" % s for s, _, _ in rows], dtype=str)
    obs = np.array([0.15 + 0.7 * rnd.random() for _ in rows])
    Screen(treatment_names=tn, treatment_doses=td, sample_names=sn, plate_names=np.array(["orig"] * len(rows), dtype=str), observations=obs,
           control_treatment_name="ctl").save_h5(path)


def end_to_end(B, seed, n_chains=1, n_chunks=2, crash_before_call=None):
    rnd = random.Random(seed)
    mod = load_script()
    root = tempfile.mkdtemp(prefix="verif-e2e-")
    saved_state = np.random.get_state()
    try:
        inp = os.path.join(root, "in.screen.h5")
        input_screen(inp, rnd)
        pipe = RealPipe(n_chains=n_chains, n_chunks=n_chunks, seed=seed, crash_before_call=crash_before_call)
        mod.subprocess.check_call = pipe.check_call
        old = sys.argv
        sys.argv = ["batchie.py", "--screen", inp, "--batch-size", str(B), "--mode", "retrospective", "--outdir", os.path.join(root, "out")]
        np.random.seed(seed)
        import re
        try:
            for attempt in range(6):
                try:
                    st, r = outcome(mod.main)
                except Interrupted:
                    continue                      # the whole run was killed: simply run the script again
                if st != "ok":
                    m = re.search(r"continue simulation: (.*)$", r)
                    if r.startswith("RuntimeError") and m and os.path.isdir(m.group(1).strip()):
                        shutil.rmtree(m.group(1).strip())      # the operator removes the directory the script names
                        continue
                break
        finally:
            sys.argv = old
        if st != "ok":
            return {"raised": r, "events": pipe.events}
        p = pipe.prepared
        return {"B": B, "plates": sorted(p["observed"] + p["unobserved"]), "init_observed": p["observed"], "maps": p["maps"], "events": pipe.events}
    finally:
        np.random.set_state(saved_state)
        shutil.rmtree(root, ignore_errors=True)


def run_e2e(ctx, owner, configs):
    """runs the end-to-end traces and reports only the clauses that belong to property `owner`"""
    from harness.tracecheck import validate
    from harness import tlc
    for B in sorted({c[0] for c in configs}):
        r = ctx.tlc("Pipeline", tlc.cfg(spec="Spec", constants={"Plates": {0, 1, 2, 3, 4}, "B": B, "InitObserved": {0}},
                                        invariants=["Partition", "NoDoubleReveal", "CounterDrops", "OneModelPerIteration", "StepArithmetic"],
                                        properties=["Terminates"]), note="composed loop, 5 plates, B=%d" % B)
        if r.violation:
            ctx.violation("design-level: Pipeline violates %s" % r.violation, {"kind": "tlc", "tlc": r.violation_text[:2000]})
    for cfg in configs:
        B, seed = cfg[0], cfg[1]
        crash = cfg[2] if len(cfg) > 2 else None
        t = end_to_end(B, seed, crash_before_call=crash)
        ctx.evaluations += 1
        if "raised" in t:
            msg = "end-to-end run (real script + real command-line programs, B=%d) raised: %s" % (B, t["raised"])
            if owner == "C19":
                ctx.violation(msg, {"kind": "e2e", "B": B, "seed": seed})
            else:
                print("NOTE end-to-end: " + msg)
            continue
        bad = validate(ctx, "TracePipeline", [t], decide=None, next_="TNext", init="TInit", invariants=["TInv"],
                       constants={"Plates": {0}, "B": B, "InitObserved": {0}}, note="end-to-end B=%d seed=%d (%d steps)" % (B, seed, len(t["events"])))
        for i, clause in bad:
            own = CLAUSE_OWNER.get(clause, "C19")
            msg = "end-to-end run B=%d seed=%d rejected at '%s' (selections so far %s)" % (B, seed, clause, [e["selected"] for e in t["events"]])
            if own == owner:
                ctx.violation(msg, {"kind": "e2e", "B": B, "seed": seed, "clause": clause})
            else:
                print("NOTE end-to-end: %s - this clause belongs to %s and is decided by its check" % (msg, own))
        ctx.extra.setdefault("end_to_end_runs", []).append({"B": B, "seed": seed, "interrupted_before_program": crash, "steps": len(t["events"]), "selected": [e["selected"] for e in t["events"]]})
