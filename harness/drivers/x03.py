"""X03 (not one of the listed properties; DESIGN 11.6) - the grid model's concentration look-up follows GridLookup.tla.

A. TLC: GridLookup.tla on every strictly increasing grid of 2..4 points over 0..MaxG and every concentration from two below to two above:
   brackets and exact reconstruction inside the grid, weight one on a grid point, clamping below, refusal above, monotone upper neighbour.
B. spec -> code: every exported case through the real ConcentrationGrid.lookup_conc - one call per case (so that a refusal is seen per case)
   and, for the cases that answer, stacked as the "drugs" of one grid in one vectorised call with a shuffled drug order; lattice values are
   halved on the way in, so half-integers occur.  Index exact; weight within 1e-6 of num/den.
   Also init_from_range: the grid it builds is strictly increasing, spans the range padded on both sides, and has n_grid points."""
import random
import numpy as np
import torch

from batchie.models.grid_helper import ConcentrationGrid, interp_01_vals
from harness import tlc
from harness.util import outcome


def _one(grid, xs, ids):
    cg = ConcentrationGrid(torch.tensor(grid, dtype=torch.float32))
    return outcome(lambda: cg.lookup_conc(torch.tensor(xs, dtype=torch.float32), torch.tensor(ids, dtype=torch.long)))


def run(ctx):
    rng = random.Random(ctx.seed)
    maxg = 6 if ctx.quick else 8
    invs = ["BracketsInRange", "WeightIsAProportion", "OnAGridPoint", "StrictlyBetween", "BelowIsClamped", "AboveIsRefused", "MonotoneUb", "Exp"]
    r = ctx.tlc("GridLookup", tlc.cfg(spec="Spec", constants={"MaxG": maxg, "Export": True}, invariants=invs), note="all grids and concentrations; export",
                allow_violation=False)
    cases = r.by_tag("lookup")
    if not cases or not any(c["out"]["refused"] for c in cases) or not any(0 < c["out"]["num"] < c["out"]["den"] for c in cases):
        raise tlc.TLCError("vacuity guard: exported cases lack refusals or proper interpolations (%d cases)" % len(cases))
    ctx.exhaustive = True
    n_bad = 0

    def report(what, rp):
        nonlocal n_bad
        n_bad += 1
        if n_bad <= 10:
            ctx.violation(what, rp)

    def compare(c, ub, p, how):
        e = c["out"]
        if int(ub) != e["ub"] or abs(float(p) - e["num"] / e["den"]) > 1e-6:
            report("lookup_conc (%s) grid %s x %s: got (index %d, weight %.7f), GridLookup.tla says (index %d, weight %d/%d)" % (
                how, [v / 2 for v in c["g"]], (c["x"] - 2) / 2, int(ub), float(p), e["ub"], e["num"], e["den"]), {"kind": "lookup", "case": c})

    # one call per case; a second drug row (never addressed) keeps the tensors two-dimensional as in the model
    sub = cases if not ctx.quick else cases[::3] + [c for c in cases if c["out"]["refused"]][::2]
    for c in sub:
        g = [v / 2 for v in c["g"]]
        x = (c["x"] - 2) / 2
        o = _one([g, [v + 100 for v in g]], [x, x], [0, 0])
        ctx.evaluations += 1
        if c["out"]["refused"]:
            if o[0] != "exc":
                report("lookup_conc answered %s for a concentration above the grid %s (x = %s), where the indexed grid point does not exist" % (
                    [t.tolist() for t in o[1]], g, x), {"kind": "lookup", "case": c})
            continue
        if o[0] == "exc":
            report("lookup_conc raised %s for grid %s x %s" % (o[1], g, x), {"kind": "lookup", "case": c})
            continue
        ub, p = o[1]
        compare(c, ub.reshape(-1)[0], p.reshape(-1)[0], "single")
    # vectorised: all answering cases of one grid length as the drugs of one grid, addressed in a shuffled order
    for n in (2, 3, 4):
        cs = [c for c in cases if len(c["g"]) == n and not c["out"]["refused"]]
        rng.shuffle(cs)
        for off in range(0, len(cs), 500):
            part = cs[off:off + 500]
            grid = [[v / 2 for v in c["g"]] for c in part]
            order = list(range(len(part)))
            rng.shuffle(order)
            o = _one(grid, [(part[k]["x"] - 2) / 2 for k in order], order)
            ctx.evaluations += 1
            if o[0] == "exc":
                report("vectorised lookup_conc raised %s on %d answering cases" % (o[1], len(part)), {"kind": "lookup-batch", "n": n})
                continue
            ub, p = o[1]
            ub, p = ub.reshape(-1), p.reshape(-1)
            if len(ub) != len(order) or len(p) != len(order):
                report("vectorised lookup_conc returned %d / %d entries for %d concentrations" % (len(ub), len(p), len(order)), {"kind": "lookup-batch", "n": n})
                continue
            for j, k in enumerate(order):
                compare(part[k], ub[j], p[j], "vectorised")
    # init_from_range
    for _ in range(40 if ctx.quick else 400):
        nd, ng = rng.randrange(1, 5), rng.randrange(4, 12)
        names = {"d%d" % i: i for i in range(nd)}
        pad = rng.choice([0.5, 1.0, 2.0])
        if rng.random() < 0.5:
            lo, hi = sorted(rng.sample(range(-8, 4), 2))
            rngs, per = (float(lo), float(hi)), {i: (lo, hi) for i in range(nd)}
        else:
            per, rngs = {}, {}
            for nm_, i in sorted(names.items(), reverse=True):
                lo, hi = sorted(rng.sample(range(-8, 4), 2))
                per[i], rngs[nm_] = (lo, hi), (float(lo), float(hi))
        o = outcome(lambda: ConcentrationGrid.init_from_range(rngs, names, ng, log_conc_padding=pad))
        ctx.evaluations += 1
        rp = {"kind": "init", "ranges": str(rngs), "n_grid": ng, "pad": pad}
        if o[0] == "exc":
            report("init_from_range raised %s" % (o[1],), rp)
            continue
        cg = o[1].conc_grid.numpy()
        ok = cg.shape == (nd, ng) and o[1].n_grid == ng
        for i in range(nd if ok else 0):
            lo, hi = per[i]
            ok = ok and bool(np.all(np.diff(cg[i]) > 0)) and abs(cg[i][0] - (lo - pad)) < 1e-5 and abs(cg[i][-1] - (hi + pad)) < 1e-5 \
                and abs(cg[i][1] - lo) < 1e-5 and abs(cg[i][-2] - hi) < 1e-5
        if not ok:
            report("init_from_range(%s, n_grid=%d, padding=%s): grid %s is not the padded, strictly increasing grid of n_grid points per drug" % (
                rngs, ng, pad, cg.tolist()), rp)
    # interp_01_vals (GridInterp.tla): regular grid on [0, 1]
    S = 16
    r2 = ctx.tlc("GridInterp", tlc.cfg(spec="Spec", constants={"S": S, "MaxM": 6 if ctx.quick else 12, "Export": True},
                                       invariants=["Neighbours", "WeightReproduces", "OnAGridPoint", "Exp"]), note="regular grid: all lattice values and grid sizes; export",
                 allow_violation=False)
    ic = r2.by_tag("interp")
    if len(ic) < 17 * 6:
        raise tlc.TLCError("expected at least %d exported interpolation cases, got %d" % (17 * 6, len(ic)))
    for M in sorted({c["M"] for c in ic}):
        part = [c for c in ic if c["M"] == M]
        rng.shuffle(part)
        o = outcome(lambda: interp_01_vals(torch.tensor([c["J"] / S for c in part], dtype=torch.float32), M + 1))
        ctx.evaluations += 1
        if o[0] == "exc":
            report("interp_01_vals raised %s for n_grid = %d" % (o[1], M + 1), {"kind": "interp", "M": M})
            continue
        ku, kl, p = o[1]
        for j, c in enumerate(part):
            e = c["out"]
            if int(ku[j]) != e["upper"] or int(kl[j]) != e["lower"] or abs(float(p[j]) - e["num"] / S) > 1e-5:
                report("interp_01_vals(x = %d/16, n_grid = %d): got (upper %d, lower %d, weight %.6f), GridInterp.tla says (upper %d, lower %d, weight %d/16)" % (
                    c["J"], M + 1, int(ku[j]), int(kl[j]), float(p[j]), e["upper"], e["lower"], e["num"]), {"kind": "interp", "case": c})
    ctx.extra["interp_cases"] = len(ic)
    ctx.traces += len(sub)
    ctx.sample({"case": cases[len(cases) // 2]})
    ctx.extra["cases"] = len(cases)
    ctx.assumptions += ["lattice: grid points k/2 for k in 0..MaxG, concentrations from one below to one above (float32-exact); weights compared within 1e-6"]


def replay(ctx, rp):
    run(ctx)
