"""C17 - burn-in / thinning schedule and per-chain streams (Sampling.tla, TraceSampling.tla)."""
import hashlib, json, os, random
import numpy as np

from batchie import sampling
from batchie.core import BayesianModel, MCMCModel, VIModel, Theta, ThetaHolder
from harness.util import outcome, Interner

INVS = ["Schedule", "VariationalOnce", "Complete", "NeverOverfull", "ResetBeforeAnyStep", "ExportDone"]
ACTIONS = ["Reset", "SetRng", "BurnStep", "BurnDone", "Step", "Record", "LoopDone", "VISample"]


class CountTheta(Theta):
    def __init__(self, count):
        self.count = count


class _Base(BayesianModel):
    def __init__(self):
        self.count, self.total, self.log, self._rng = 0, 0, [], None

    def reset_model(self):
        self.count = 0
        self.log.append({"ev": "reset"})

    def set_rng(self, rng):
        self._rng = rng
        self.log.append({"ev": "set_rng"})

    @property
    def rng(self):
        return self._rng

    def _add_observations(self, data):
        pass

    nobs = 0

    def n_obs(self):
        return self.nobs


class CountMCMC(_Base, MCMCModel):
    def step(self):
        self.count += 1
        self.total += 1
        self.log.append({"ev": "step"})

    def get_model_state(self):
        self.log.append({"ev": "get_state", "count": self.count})
        return CountTheta(self.count)


class AnotherCountMCMC(CountMCMC):
    """a second model class: the generator handed over depends on (seed, n_chains, chain_index) only, not on what is being sampled"""


class CountVI(_Base, VIModel):
    def sample(self, num_samples):
        self.log.append({"ev": "vi_sample", "num": int(num_samples)})
        return [CountTheta(0) for _ in range(num_samples)]


def _run(kind, b, t, n, seed=3, nchains=2, idx=1):
    m = CountMCMC() if kind == "mcmc" else CountVI()
    m.nobs = (0, 7, 1)[(b + t + n) % 3]          # with and without data: the schedule does not depend on it
    h = ThetaHolder(n_thetas=n)
    # every other configuration with the progress bar switched on (what train_model --progress does): the schedule does not depend on it
    bar = (b + 2 * t + n) % 2 == 1
    import contextlib, io
    with contextlib.redirect_stderr(io.StringIO()):
        st, r = outcome(sampling.sample, m, h, seed, n_chains=nchains, chain_index=idx, n_burnin=b, thin=t, progress_bar=bar)
    ev = list(m.log)
    tr = {"what": "run", "kind": kind, "b": b, "t": t, "n": n, "events": ev, "streams": [], "progress_bar": bar}
    if st != "ok":
        tr["raised"] = r
        return tr, m
    ev.append({"ev": "end", "holder": [int(x.count) for x in h.thetas], "complete": bool(h.is_complete), "total": m.total})
    return tr, m


def _stream_tok(rng, intern, nwin):
    st = json.dumps(rng.bit_generator.state, sort_keys=True, default=str)
    raw = np.random.Generator(type(rng.bit_generator)()).bit_generator  # placeholder to keep type import local
    g = np.random.Generator(rng.bit_generator)          # same underlying stream
    draws = g.integers(0, 2 ** 63, size=nwin + 7, dtype=np.int64)
    tok = intern(hashlib.sha1(st.encode() + draws[:64].tobytes()).hexdigest())
    win = [intern("w" + hashlib.sha1(draws[i:i + 8].tobytes()).hexdigest()) for i in range(nwin)]
    return tok, win


REUSED = {}
import logging as _logging
NULL_HANDLER = _logging.NullHandler()
PCG_MULT = 0x2360ED051FC65DA44385DF649FCCF645          # numpy's PCG64: state' = state * PCG_MULT + inc (mod 2^128)
M128 = (1 << 128) - 1


def lcg_distance(s1, s2, inc):
    """number of steps from state s1 to state s2 on the cycle of the 128-bit LCG with this increment (O'Neill's pcg distance)"""
    mult, plus, bit, d = PCG_MULT, inc & M128, 1, 0
    while s1 != s2:
        if (s1 & bit) != (s2 & bit):
            s1 = (s1 * mult + plus) & M128
            d |= bit
        bit <<= 1
        if bit > M128:
            break
        plus = ((mult + 1) * plus) & M128
        mult = (mult * mult) & M128
    return d


def cycle_of(rng):
    """(cycle identity, state) of the generator's stream; generators of other kinds are each their own cycle"""
    st = rng.bit_generator.state
    if st.get("bit_generator") == "PCG64":
        return ("PCG64", int(st["state"]["inc"])), int(st["state"]["state"])
    return ("other", json.dumps(st, sort_keys=True, default=str)), None


def _streams(rnd, ntriples, nwin):
    intern = Interner()
    out = []
    triples = []
    for _ in range(ntriples):
        seed = rnd.choice([0, 1, 2, 12345, 2 ** 31 - 1, rnd.randrange(2 ** 32)])
        nch = rnd.randint(1, 5)
        for idx in range(nch):
            triples.append((seed, nch, idx))
    triples = triples + rnd.sample(triples, min(len(triples), 6))     # repeats of identical triples, later in the process
    for j, (seed, nch, idx) in enumerate(triples):
        m = CountMCMC() if j % 2 == 0 else AnotherCountMCMC()
        if j % 4 == 1:
            m._rng = np.random.default_rng(987654321)          # a model that was constructed with a generator of its own
        elif j % 4 == 3 and out:
            m = REUSED.setdefault(type(m).__name__, m)          # the same model object as in an earlier sampling call
        # every third call with debug logging switched on: the generator depends on (seed, n_chains, chain_index), not on how verbose the run is
        import logging
        verbose = j % 3 == 2
        prev_disable, lg = logging.root.manager.disable, logging.getLogger("batchie")
        prev_level = lg.level
        if verbose:
            logging.disable(logging.NOTSET)
            lg.setLevel(logging.DEBUG)
            lg.addHandler(NULL_HANDLER)
        try:
            st, r = outcome(sampling.sample, m, ThetaHolder(n_thetas=1), seed, n_chains=nch, chain_index=idx, n_burnin=0, thin=1)
        finally:
            if verbose:
                lg.removeHandler(NULL_HANDLER)
                lg.setLevel(prev_level)
                logging.disable(prev_disable)
        if st != "ok" or m.rng is None:
            return {"what": "streams", "raised": str(r)}
        cyc, state = cycle_of(m.rng)
        tok, win = _stream_tok(m.rng, intern, nwin)
        ref = np.random.default_rng(np.random.SeedSequence(seed).spawn(nch)[idx])
        rtok, _ = _stream_tok(ref, intern, nwin)
        out.append({"seed": seed % 100000, "nchains": nch, "idx": idx, "tok": tok, "ref": rtok, "win": win, "cycle": intern(("cycle", cyc)),
                    "_cyc": cyc, "_state": state})
    # pairs of streams that run on ONE cycle less than 2^64 draws apart (either direction): they overlap in a long enough run
    near = []
    for x in range(len(out)):
        for y in range(x + 1, len(out)):
            a, b = out[x], out[y]
            if a["_cyc"] == b["_cyc"] and a["_state"] is not None and a["_state"] != b["_state"]:
                d = lcg_distance(a["_state"], b["_state"], a["_cyc"][1])
                if min(d, (1 << 128) - d) < (1 << 64):
                    near.append([x + 1, y + 1])
    for o in out:
        del o["_cyc"], o["_state"]
    return {"what": "streams", "kind": "mcmc", "b": 0, "t": 1, "n": 1, "events": [], "streams": out, "near": near}


CHILD = r"""
import sys, json, hashlib
import numpy as np
sys.path.insert(0, %r)
from harness.drivers import c17
from batchie import sampling
from batchie.core import ThetaHolder
out = []
for seed, nch, idx in json.loads(sys.argv[1]):
    m = c17.CountMCMC()
    sampling.sample(m, ThetaHolder(n_thetas=1), seed, n_chains=nch, chain_index=idx, n_burnin=0, thin=1)
    st = json.dumps(m.rng.bit_generator.state, sort_keys=True, default=str)
    out.append(hashlib.sha1(st.encode()).hexdigest())
print(json.dumps(out))
"""


def _streams_other_process(rnd):
    """the same triples in this interpreter and in a fresh one with another PYTHONHASHSEED: same generator state"""
    import subprocess, sys
    triples = [(rnd.choice([0, 1, 12345]), nch, idx) for nch in (1, 3) for idx in range(nch)]
    here = []
    for seed, nch, idx in triples:
        m = CountMCMC()
        st, r = outcome(sampling.sample, m, ThetaHolder(n_thetas=1), seed, n_chains=nch, chain_index=idx, n_burnin=0, thin=1)
        if st != "ok" or m.rng is None:
            return {"what": "streams", "raised": str(r)}
        here.append(hashlib.sha1(json.dumps(m.rng.bit_generator.state, sort_keys=True, default=str).encode()).hexdigest())
    env = dict(os.environ, PYTHONHASHSEED=str(rnd.randint(1, 10 ** 6)))
    p = subprocess.run([sys.executable, "-c", CHILD % os.path.dirname(os.path.dirname(os.path.dirname(os.path.abspath(__file__)))), json.dumps(triples)], env=env, stdout=subprocess.PIPE, stderr=subprocess.PIPE, text=True, timeout=300)
    if p.returncode != 0:
        return {"what": "streams", "raised": "child interpreter failed: " + p.stderr[-300:]}
    there = json.loads(p.stdout.strip().splitlines()[-1])
    intern = Interner()
    out = []
    for (seed, nch, idx), a, b in zip(triples, here, there):
        for tok in (a, b):
            out.append({"seed": seed % 100000, "nchains": nch, "idx": idx, "tok": intern(tok), "ref": intern(tok), "win": [], "cycle": 0})
    return {"what": "streams", "kind": "mcmc", "b": 0, "t": 1, "n": 1, "events": [], "streams": out, "near": []}


def run(ctx):
    from harness import tlc
    rnd = random.Random(ctx.seed)
    mb, mt, mn = (5, 4, 4) if ctx.quick else (9, 6, 6)
    r = ctx.tlc("Sampling", tlc.cfg(constants={"MaxB": mb, "MaxT": mt, "MaxN": mn, "Export": True}, invariants=INVS),
                note="exhaustive b<=%d t<=%d n<=%d" % (mb, mt, mn), coverage=True, workers=1)
    if r.violation:
        ctx.violation("design-level: %s violated" % r.violation, {"tlc": r.violation_text})
    ctx.need_coverage(r, ACTIONS)
    ctx.exhaustive = True
    # (B) every explored configuration run through the real function; final schedule compared with the spec's
    traces = []
    for e in r.by_tag("sched"):
        tr, m = _run(e["kind"], e["b"], e["t"], e["n"])
        ctx.evaluations += 1
        if "raised" in tr:
            ctx.violation("sampling.sample raised: %s" % tr["raised"], {"kind": "cfg", "e": e})
            break
        end = tr["events"][-1]
        if e["kind"] == "mcmc" and (end["holder"] != list(e["recorded"]) or end["total"] != e["steps"]):
            ctx.violation("b=%d t=%d n=%d: recorded after steps %s (total %d), specification %s (total %d)" % (
                e["b"], e["t"], e["n"], end["holder"], end["total"], list(e["recorded"]), e["steps"]), {"kind": "cfg", "e": e})
            break
        traces.append(tr)
    ctx.extra["spec_to_code_configs"] = len(traces)
    # (C) larger random configurations + stream identity
    for _ in range(40 if ctx.quick else 400):
        tr, _ = _run(rnd.choice(["mcmc", "mcmc", "vi"]), rnd.randint(0, 40), rnd.randint(1, 12), rnd.randint(1, 15),
                     seed=rnd.randrange(1000), nchains=rnd.randint(1, 4), idx=0)
        traces.append(tr)
    for big in (300, 700) if ctx.quick else (257, 300, 700, 1500):
        tr, _ = _run("vi", 0, 1, big)
        traces.append(tr)
    tr, _ = _run("mcmc", 0, 1, 3)          # no burn-in at all
    traces.append(tr)
    for b in (1001, 3333) if ctx.quick else (1000, 1001, 1499, 3333, 10007):       # long burn-ins (production uses thousands of steps)
        tr, _ = _run("mcmc", b, rnd.randint(1, 3), 2)
        traces.append(tr)
    traces.append(_streams_other_process(rnd))
    # a model that fails in the middle of a run: the error comes out, or the collection is complete - never a silent short run
    for fail_at in (1, 4, 9):
        class Failing(CountMCMC):
            def step(self, fail_at=fail_at):
                if self.total + 1 == fail_at:
                    raise RuntimeError("the sampler diverged")
                super().step()
        m = Failing()
        h = ThetaHolder(n_thetas=3)
        st, r = outcome(sampling.sample, m, h, 5, n_chains=1, chain_index=0, n_burnin=2, thin=2)
        if st == "ok" and (not h.is_complete or m.total != 2 + 3 * 2):
            ctx.violation("sampling.sample returned normally after the model failed at step %d: %d of 3 samples, %d of 8 steps" % (fail_at, len(h.thetas), m.total),
                          {"kind": "failing-model", "fail_at": fail_at})
    for _ in range(3 if ctx.quick else 20):
        traces.append(_streams(rnd, 5 if ctx.quick else 8, 256 if ctx.quick else 1024))
    _decide(ctx, traces)
    drift = sum(1 for t in traces if t.get("what") == "streams" for o in t.get("streams", []) if o["tok"] != o["ref"])
    ctx.extra["model_drift"] = drift
    if drift:
        print("NOTE model-drift property=C17: %d generator(s) handed to the model are not SeedSequence(seed).spawn(n_chains)[chain_index] "
              "(the construction Sampling.tla documents); the clauses of C17 are judged on the streams themselves" % drift)
    ctx.assumptions += ["stream non-overlap is witnessed on a finite prefix (8-draw windows of the first 256/1024 draws); beyond it "
                        "numpy SeedSequence.spawn is trusted"]


def _decide(ctx, traces):
    from harness.tracecheck import validate
    ok = []
    for t in traces:
        if "raised" in t:
            ctx.violation("sampling.sample raised: %s" % t["raised"], {"kind": "raw", "trace": {k: v for k, v in t.items() if k != "events"}})
        else:
            ok.append(t)
    bad = validate(ctx, "TraceSampling", ok, decide=None, next_="TNext", init="TInit",
                   constants={"MaxB": 0, "MaxT": 1, "MaxN": 1, "Export": False})
    for i, clause in bad[:3]:
        t = ok[i]
        ctx.violation("real run rejected by TraceSampling at '%s': %s" % (clause, json.dumps({k: v for k, v in t.items() if k not in ("events", "streams")})),
                      {"kind": "raw", "trace": {k: t[k] for k in ("what", "kind", "b", "t", "n")}, "clause": clause})
    runs = [t for t in ok if t["what"] == "run" and t["kind"] == "mcmc" and t["b"] + t["n"] * t["t"] >= 3]
    if not bad and runs:
        from harness.tracecheck import selftest

        def corrupt(t):
            i = [k for k, e in enumerate(t["events"]) if e["ev"] == "step"][1]
            del t["events"][i]
            return "one logged model step removed (as if the hook had not fired)"
        selftest(ctx, "TraceSampling", runs[0], corrupt, decide=None, next_="TNext", init="TInit",
                 constants={"MaxB": 0, "MaxT": 1, "MaxN": 1, "Export": False})
    for t in ok:
        if t["what"] == "run":
            ctx.sample({"code_to_spec": {k: (v if k != "events" else v[:12] + ["..."] + v[-2:]) for k, v in t.items()}})
            break


def replay(ctx, rp):
    if rp["kind"] == "cfg":
        e = rp["e"]
        tr, _ = _run(e["kind"], e["b"], e["t"], e["n"])
        _decide(ctx, [tr])
    else:
        t = rp["trace"]
        if t.get("what") == "streams":
            _decide(ctx, [_streams(random.Random(0), 5, 256)])
        else:
            tr, _ = _run(t["kind"], t["b"], t["t"], t["n"])
            _decide(ctx, [tr])
