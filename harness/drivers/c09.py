"""C09 - predictions are pure, row-wise, treatment-order-symmetric and control-neutral (Predict.tla, TraceFunctional.tla)."""
import hashlib, json, random
import numpy as np

from batchie.core import ThetaHolder
from batchie.data import Screen
from batchie.models.sparse_combo import SparseDrugComboMCMCSample
from batchie.models.sparse_combo_interaction import SparseDrugComboInteractionMCMCSample
from batchie.models import main as MM
from harness.terms import ev, close
from harness.util import outcome, bits, Interner

NS, NT = 2, 3
TN = ["t0", "t1", "t2"]


def theta(kind, D, rng, extreme=False):
    sc = (lambda shape: rng.normal(size=shape) * (rng.choice([1e-3, 1.0, 3.0, 40.0], size=shape) if extreme else 1.0))
    # the noise precision is a positive number of whatever numeric type the sampler or the file reader produced (float, int, numpy scalar)
    prec = float(np.exp(rng.normal() * 2))
    u = rng.random()
    prec = prec if u < 0.6 else (int(rng.integers(2, 400)) if u < 0.8 else np.int64(rng.integers(2, 400)))
    if kind == "combo":
        return SparseDrugComboMCMCSample(W=sc((NS, D)), W0=sc((NS,)), V2=sc((NT, D)), V1=sc((NT, D)), V0=sc((NT,)),
                                         alpha=float(rng.normal()), precision=prec)
    lut = {(c, t): float(rng.uniform(0.005, 1.2)) for c in range(NS) for t in range(NT)}
    lut.update({(c, -1): 1.0 for c in range(NS)})
    return SparseDrugComboInteractionMCMCSample(W=sc((NS, D)) * 0.3, V2=sc((NT, D)) * 0.3, precision=prec, single_effect_lookup=lut)


def env_of(th):
    e = {"W": th.W, "V2": th.V2, "precision": th.precision}
    if isinstance(th, SparseDrugComboMCMCSample):
        e.update({"W0": th.W0, "V1": th.V1, "V0": th.V0, "alpha": th.alpha})
    else:
        e["E"] = th.single_effect_lookup
    return e


def tdigest(th):
    h = hashlib.sha1()
    for k in sorted(k for k in th.__dict__ if k != "single_effect_lookup"):
        v = th.__dict__[k]
        h.update(k.encode() + (np.ascontiguousarray(v).tobytes() if isinstance(v, np.ndarray) else bits(v).encode()))
    if hasattr(th, "single_effect_lookup"):
        h.update(repr(sorted((int(a), int(b), bits(v)) for (a, b), v in th.single_effect_lookup.items())).encode())
    return h.hexdigest()


def screen_of(rows, arity, plates=None):
    """rows: (s, t1[, t2]) ids; a base block guarantees that ids equal the tokens"""
    tn = np.array([[("ctl" if t < 0 else TN[t]) for t in r[1:1 + arity]] for r in rows], dtype=str).reshape(len(rows), arity)
    td = np.array([[(0.0 if t < 0 else 1.0) for t in r[1:1 + arity]] for r in rows], dtype=float).reshape(len(rows), arity)
    sn = np.array(["s%d" % r[0] for r in rows], dtype=str)
    pn = np.array(["p%d" % (plates[i] if plates else i % 3) for i in range(len(rows))], dtype=str)
    # the ids ARE the tokens, by explicit mappings (C09 is about predictions for given ids, not about how a screen numbers its names)
    smap = (np.array(["s0", "s1"], dtype=str), np.array([0, 1]))
    tmap = (np.array(["ctl"] + list(TN), dtype=str), np.array([0.0] + [1.0] * len(TN)), np.array([-1] + list(range(len(TN)))))
    return Screen(treatment_names=tn, treatment_doses=td, sample_names=sn, plate_names=pn, control_treatment_name="ctl",
                  sample_mapping=smap, treatment_mapping=tmap)


BASE2 = [(0, 0, 1), (1, 2, -1), (0, -1, 2)]
BASE1 = [(0, 0), (1, 1), (0, 2)]


def sdigest(s):
    h = hashlib.sha1()
    for a in (s.treatment_ids, s.sample_ids, s.plate_ids, s.observations, s.observation_mask, s.treatment_doses):
        h.update(np.ascontiguousarray(a).tobytes())
    h.update("|".join(s.treatment_names.ravel().tolist() + s.sample_names.tolist() + s.plate_names.tolist()).encode())
    return h.hexdigest()


def run(ctx):
    from harness import tlc
    from harness.tracecheck import validate
    rnd = random.Random(ctx.seed)
    rng = np.random.default_rng(ctx.seed)
    c = {"NSamples": NS, "NTreat": NT, "MaxD": 2 if ctx.quick else 3, "Export": True}
    r = ctx.tlc("Predict", tlc.cfg(constants=c, invariants=["OwnCellsOnly", "SwapSymmetric", "ControlNeutral", "ExportCase"]),
                note="every experiment shape: 2 samples, 3 treatments + control, arity 1..2, both sample types", workers=1, coverage=True)
    if r.violation:
        ctx.violation("design-level: Predict violates %s" % r.violation, {"kind": "tlc", "tlc": r.violation_text[:3000]})
    cases = r.by_tag("pred")
    ctx.exhaustive = True
    # (B) each exported shape, random parameter values, real predict_* against the evaluated term
    reps = 3 if ctx.quick else 25
    nbad = 0
    for e in cases:
        for k in range(reps):
            th = theta(e["kind"], e["D"], rng, extreme=(k % 3 == 2))
            row = (e["s"], e["t1"], e["t2"]) if e["arity"] == 2 else (e["s"], e["t1"])
            base = BASE2 if e["arity"] == 2 else BASE1
            rows = base + [row] + [rnd.choice(base)]
            scr = screen_of(rows, e["arity"])
            pos = len(base)
            env = env_of(th)
            got = {}
            for name, f in (("mean", th.predict_conditional_mean), ("viability", th.predict_viability), ("variance", th.predict_conditional_variance)):
                st, v = outcome(f, scr)
                if st != "ok":
                    got[name] = ("raised", v)
                else:
                    got[name] = ("ok", v)
            ctx.evaluations += 1
            for name in ("mean", "viability", "variance"):
                want, mag = ev(e[name], env)
                st, v = got[name]
                if st != "ok":
                    msg = "predict %s raised %s" % (name, v)
                elif len(v) != scr.size:
                    msg = "predict %s returned %d values for %d experiments" % (name, len(v), scr.size)
                elif not close(float(v[pos]), want, mag, 1e-9):
                    msg = "%s = %.17g, documented model gives %.17g" % (name, float(v[pos]), want)
                elif name == "variance" and not (float(v[pos]) > 0):
                    msg = "variance not positive"
                else:
                    continue
                nbad += 1
                if nbad <= 4:
                    ctx.violation("%s sample, experiment (s=%d, t=%s) D=%d: %s" % (e["kind"], e["s"], (e["t1"], e["t2"]), e["D"], msg),
                                  {"kind": "shape", "case": {k2: e[k2] for k2 in ("kind", "arity", "s", "t1", "t2", "D")}, "seed": ctx.seed})
                break
    ctx.traces += len(cases) * reps
    ctx.sample({"shape": {k2: cases[len(cases) // 2][k2] for k2 in ("kind", "arity", "s", "t1", "t2", "D", "mean")}})
    # (C) purity, row-wise independence, subsets, plate views, row permutations: the Functional monitor on per-row bit patterns
    traces = []
    for k in range(12 if ctx.quick else 120):
        kind = rnd.choice(["combo", "combo", "inter"])
        arity = 2 if kind == "inter" else rnd.choice([1, 2, 2])
        D = rnd.randint(1, 3)
        th = theta(kind, D, rng, extreme=rnd.random() < 0.3)
        base = BASE2 if arity == 2 else BASE1
        rows = list(base) + [((rnd.randrange(NS),) + tuple(rnd.randint(-1, NT - 1) for _ in range(arity))) for _ in range(rnd.randint(2, 9))]
        plates = [rnd.randrange(3) for _ in rows]
        scr = screen_of(rows, arity, plates)
        it = Interner()
        events = []

        def log(view, label):
            d0, s0 = tdigest(th), sdigest(view.screen if hasattr(view, "screen") else view)
            outs = []
            for f in (th.predict_conditional_mean, th.predict_viability, th.predict_conditional_variance):
                st, v = outcome(f, view)
                outs.append([("raised:" + v[:30]) if st != "ok" else bits(x) for x in (v if st == "ok" else [0] * view.size)])
            for i in range(view.size):
                key = it(("row", int(view.sample_ids[i]), tuple(int(x) for x in view.treatment_ids[i])))
                events.append({"ev": "call", "what": "predict-" + label, "key": key, "out": it((outs[0][i], outs[1][i], outs[2][i])), "g0": 0, "g1": 0})
            events.append({"ev": "call", "what": "sample-untouched-by-predict-" + label, "key": it("theta-state"), "out": it(d0 + tdigest(th)), "g0": 0, "g1": 0})
            events.append({"ev": "call", "what": "screen-untouched-by-predict-" + label, "key": it(("screen-state", s0)),
                           "out": it(sdigest(view.screen if hasattr(view, "screen") else view)), "g0": 0, "g1": 0})
        events.append({"ev": "call", "what": "sample-state", "key": it("theta-state"), "out": it(tdigest(th) + tdigest(th)), "g0": 0, "g1": 0})
        log(scr, "whole-screen")
        for p in scr.plates:
            log(p, "plate-view")
        for _ in range(3):
            sel = np.array([rnd.random() < 0.5 for _ in rows])
            if sel.any():
                log(scr.subset(sel), "subset")
        perm = list(range(len(rows)))
        rnd.shuffle(perm)
        # a permuted screen must keep the base block somewhere so that ids stay the same: permutation keeps all rows
        log(screen_of([rows[i] for i in perm], arity, [plates[i] for i in perm]), "row-permutation")
        traces.append({"g0": 0, "events": events})
        # stacked / averaged helpers
        # holders of one, a few, and more than a block's worth of samples (33, 50, 65, 100: production holds hundreds)
        nth = (3, 1, 33, 7, 50, 65, 2, 100)[len(traces) % 8]
        hs = ThetaHolder(n_thetas=nth)
        ths = [theta(kind, D, rng) for _ in range(nth)]
        for t_ in ths:
            hs.add_theta(t_)
        held = []         # results of earlier calls stay what they were, whatever is computed afterwards (no shared buffers)
        scr2 = screen_of([rows[i] for i in perm], arity, [plates[i] for i in perm])
        from harness.util import verbose_logging
        for helper, single in ((MM.predict_mean_all, "predict_conditional_mean"), (MM.predict_viability_all, "predict_viability"), (MM.predict_variance_all, "predict_conditional_variance")):
            with verbose_logging():                      # the same call with debug logging on returns the same numbers
                stv, mv = outcome(helper, scr, hs)
            st, m = outcome(helper, scr, hs)
            if stv != st or (st == "ok" and np.ascontiguousarray(mv).tobytes() != np.ascontiguousarray(m).tobytes()):
                ctx.violation("%s returns something else when debug logging is switched on" % helper.__name__, {"kind": "helper", "helper": helper.__name__, "seed": ctx.seed})
            if st == "ok":
                held.append((helper.__name__, m, np.ascontiguousarray(m).tobytes()))
                st2, m2 = outcome(helper, scr2, hs)          # same shape, other rows
                if st2 == "ok":
                    held.append((helper.__name__, m2, np.ascontiguousarray(m2).tobytes()))
            if st != "ok" or m.shape != (nth, scr.size) or any(np.ascontiguousarray(m[i]).tobytes() != np.asarray(getattr(ths[i], single)(scr), dtype=float).tobytes() for i in range(nth)):
                ctx.violation("%s does not return one row per sample in holder order" % helper.__name__, {"kind": "helper", "helper": helper.__name__, "seed": ctx.seed})
        for helper, single in ((MM.predict_mean_avg, "predict_conditional_mean"), (MM.predict_viability_avg, "predict_viability")):
            st, a = outcome(helper, scr, hs)
            if st == "ok":
                held.append((helper.__name__, a, np.ascontiguousarray(a).tobytes()))
                outcome(helper, scr2, hs)
            want = np.mean([getattr(t_, single)(scr) for t_ in ths], axis=0)
            if st != "ok" or a.shape != (scr.size,) or not np.allclose(a, want, rtol=1e-12, atol=1e-15):
                ctx.violation("%s is not the mean over the %d samples of the holder" % (helper.__name__, nth), {"kind": "helper", "helper": helper.__name__, "seed": ctx.seed})
        for name, arr, before in held:
            if np.ascontiguousarray(arr).tobytes() != before:
                ctx.violation("the array returned by an earlier call of %s changed when a later prediction was computed" % name,
                              {"kind": "helper", "helper": name, "seed": ctx.seed})
                break
    # a prediction for an experiment depends only on that experiment's own sample (and treatments): an interaction sample whose
    # single-agent table knows only SOME samples (the others' plates are still hidden) predicts those samples exactly as with the full table
    for D in (1, 2):
        th = theta("inter", D, rng)
        for keep in ({1}, {0}):
            part = SparseDrugComboInteractionMCMCSample(W=th.W.copy(), V2=th.V2.copy(), precision=th.precision,
                                                        single_effect_lookup={k_: v_ for k_, v_ in th.single_effect_lookup.items() if k_[0] in keep})
            s_ = sorted(keep)[0]
            rows_ = [(s_, 0, 1), (s_, 2, -1), (s_, -1, 1), (s_, 1, 2)]
            scr_ = screen_of(rows_, 2)
            for fname in ("predict_viability", "predict_conditional_mean"):
                st_f, full = outcome(getattr(th, fname), scr_)
                st_p, got = outcome(getattr(part, fname), scr_)
                ctx.evaluations += 1
                if st_f != st_p or (st_f == "ok" and np.ascontiguousarray(full).tobytes() != np.ascontiguousarray(got).tobytes()):
                    ctx.violation("interaction sample whose single-agent table holds only sample %d: %s for that sample's experiments is %s, with the full table %s" % (
                        s_, fname, got, full), {"kind": "partial-table", "sample": s_, "D": D, "seed": ctx.seed})
    bad = validate(ctx, "TraceFunctional", traces, decide=None, next_="TNext", init="TInit",
                   constants={"Keys": {0}, "Outs": {0}, "Globs": {0}, "CheckGlobal": False})
    for i, clause in bad[:3]:
        ctx.violation("prediction log rejected by TraceFunctional at '%s'" % clause, {"kind": "functional", "index": i, "seed": ctx.seed, "clause": clause})
    ctx.assumptions += ["float64 evaluation of the term, tolerance 1e-9 of the term's magnitude", "per-row bitwise equality across subsets relies on numpy's element-wise kernels"]


def replay(ctx, rp):
    run(ctx)
