"""X04 (not one of the listed properties; DESIGN 11.6) - KEY=VALUE options reach the constructor as ParamArgs.tla says.

A. TLC: ParamArgs.tla over every command line of up to MaxLen options (5 keys x 8 value texts + 3 malformed texts): a malformed option
   refuses the command line, the constructor gets every key once with the LAST value converted to the annotated type, nothing is dropped
   silently, overridden values are never looked at, every run ends.
C. code -> spec: real command lines through (a) an argparse parser with the real KVAppendAction followed by the real cast_dict_to_type,
   (b) the real get_args of train_model (n_embedding_dimensions: int) and select_next_plate (k: int); how the program ended and the typed
   dictionary are validated by TraceParamArgs.tla.  Binding self-test: one typed value changed / the outcome changed."""
import argparse, contextlib, io, random, sys

from batchie.cli.argument_parsing import KVAppendAction, cast_dict_to_type
from harness import tlc, tracecheck

KEYS = ["k_int", "k_bool", "k_float", "k_str", "k_other"]
VALS = ["7", "0", "1", "2.5", "True", "no", "abc", ""]
BAD = ["noequals", "k_int=1=2", "=="]
TYPES = {"k_int": int, "k_bool": bool, "k_float": float, "k_str": str}


def _norm(v):
    t = type(v).__name__
    if t == "bool":
        return t, "true" if v else "false"
    if t == "float":
        return t, str(int(v)) if float(v).is_integer() else repr(v)
    return t, str(v)


def _end(fn):
    err = io.StringIO()
    try:
        with contextlib.redirect_stderr(err):
            return "ok", fn()
    except SystemExit as e:
        return ("usage-error" if e.code == 2 else "exit-%s" % e.code), None
    except KeyError:
        return "key-error", None
    except ValueError:
        return "value-error", None


def _texts(argv, rename):
    return [a["v"] if a["k"] == "!" else "%s=%s" % (rename.get(a["k"], a["k"]), a["v"]) for a in argv]


def generic(argv):
    def go():
        p = argparse.ArgumentParser()
        p.add_argument("--param", nargs=1, action=KVAppendAction)
        a = p.parse_args([x for t in _texts(argv, {}) for x in ("--param", t)])
        return cast_dict_to_type(a.param, TYPES) if a.param else {}
    return _end(go)


def program(which, argv):
    if which == "train_model":
        from batchie.cli import train_model as m
        rename, base, attr = {"k_int": "n_embedding_dimensions", "k_other": "a0"}, ["--data", "x.h5", "--model", "SparseDrugCombo", "--output", "o.h5"], "model_params"
        opt = "--model-param"
    else:
        from batchie.cli import select_next_plate as m
        rename, opt, attr = {"k_int": "k", "k_other": "kk"}, "--policy-param", "policy_params"
        base = ["--data", "x.h5", "--scores", "s.h5", "--output", "o.json", "--policy", "KPerSamplePlatePolicy"]
    back = {v: k for k, v in rename.items()}

    def go():
        old = sys.argv
        sys.argv = ["prog"] + base + [x for t in _texts(argv, rename) for x in (opt, t)]
        try:
            a = m.get_args()
        finally:
            sys.argv = old
        return {back.get(k, k): v for k, v in getattr(a, attr).items()}
    return _end(go)


def _trace(argv, how, res):
    end, d = res
    return {"argv": argv, "how": how, "outcome": end, "typed": sorted([k] + list(_norm(v)) for k, v in (d or {}).items())}


def run(ctx):
    rng = random.Random(ctx.seed)
    maxlen = 2 if ctx.quick else 3
    r = ctx.tlc("ParamArgs", tlc.cfg(spec="Spec", constants={"MaxLen": maxlen}, invariants=["MalformedRefuses", "OkMeansLastValueTyped", "NoSilentDrop", "OverriddenValuesIgnored"],
                                     properties=["Terminates"]), note="every command line of up to %d options" % maxlen, coverage=True, allow_violation=False)
    ctx.need_coverage(r, ["Consume", "EndOfOptions", "Cast"])
    ctx.exhaustive = True
    toks = [{"k": k, "v": v} for k in KEYS for v in VALS] + [{"k": "!", "v": b} for b in BAD]
    lines = [[]] + [[t] for t in toks] + [[a, b] for a in toks for b in toks if rng.random() < (0.25 if ctx.quick else 1.0)]
    lines += [[rng.choice(toks) for _ in range(rng.randrange(3, 7))] for _ in range(200 if ctx.quick else 3000)]
    traces = [_trace(a, "generic", generic(a)) for a in lines]
    # the real programs know one typed key each: keep k_int, k_other and the malformed texts
    few = [a for a in lines if all(t["k"] in ("k_int", "k_other", "!") for t in a)]
    for a in few[:150 if ctx.quick else 1500]:
        traces.append(_trace(a, "train_model", program("train_model", a)))
        traces.append(_trace(a, "select_next_plate", program("select_next_plate", a)))
    ctx.sample({k: traces[60][k] for k in ("argv", "outcome", "typed")})
    kw = dict(decide=None, init="TInit", next_="TNext", constants={"MaxLen": 2})
    bad = tracecheck.validate(ctx, "TraceParamArgs", traces, note="real command lines", **kw)
    for i, clause in bad[:10]:
        t = traces[i]
        ctx.violation("%s with options %s ended as '%s' with %s: rejected by TraceParamArgs at clause '%s'" % (
            t["how"], _texts(t["argv"], {}), t["outcome"], t["typed"], clause), {"kind": "argv", "trace": t, "clause": clause})
    if not bad:
        good = next(t for t in traces if t["outcome"] == "ok" and len(t["typed"]) >= 2)

        def c_val(t):
            t["typed"][0][2] = t["typed"][0][2] + "9"
            return "one typed value changed"

        def c_end(t):
            t["outcome"], t["typed"] = "usage-error", []
            return "outcome of an accepted command line changed to a usage error"
        for c_ in (c_val, c_end):
            tracecheck.selftest(ctx, "TraceParamArgs", good, c_, **kw)
    ctx.extra["command_lines"] = len(traces)
    ctx.extra["by_outcome"] = {o: sum(1 for t in traces if t["outcome"] == o) for o in sorted({t["outcome"] for t in traces})}
    ctx.assumptions += ["value texts 7, 0, 1, 2.5, True, no, abc and the empty text stand for ints, floats, bool words and junk"]


def replay(ctx, rp):
    t = rp["trace"]
    res = generic(t["argv"]) if t["how"] == "generic" else program(t["how"], t["argv"])
    t2 = _trace(t["argv"], t["how"], res)
    bad = tracecheck.validate(ctx, "TraceParamArgs", [t2], decide=None, init="TInit", next_="TNext", constants={"MaxLen": 2})
    for i, clause in bad:
        ctx.violation("replayed command line %s rejected at clause '%s'" % (_texts(t["argv"], {}), clause), {"kind": "argv", "trace": t2, "clause": clause})
