"""C01 - screen identifiers are a faithful dense encoding (Encoding.tla, TraceEncoding.tla)."""
import json, random
import numpy as np

from batchie.data import Screen, ExperimentSpace
from harness.util import outcome

INVS = ["TDecode", "TCtlIff", "TDense", "TEqualIff", "TUniqueRowPerId", "TSpace", "ODense", "OEqualIff", "OSpace",
        "Verbatim", "RejectedOnlyWhenBroken", "ExportCase"]
ZERO = 1000

# concretisations of name tokens: strictly increasing in code-point order, unequal lengths, empty, non-ASCII, astral
NAMESETS = [
    ["", "A", "a", "zz"],
    ["B", "a", "é", "\U0001F600"],
    ["a", "ab", "b", "é"],
    [" ", "Drug-1", "drug_10", "中文"],
]
ABSENT = "￿-no-such-treatment"
# dose token (0 neg, 1 zero, 2, 3 positive) -> float, several ways
DOSESETS = [
    {0: -1.0, 1: 0.0, 2: 1.0, 3: 2.5},
    {0: -5e-324, 1: -0.0, 2: 5e-324, 3: 1e-300},
    {0: -1e300, 1: 0.0, 2: 1e-9, 3: 1e-8},
    {0: -3.0, 1: 0.0, 2: 0.1, 3: 1e300},
]


def _cfg(tlc, names, doses, arity, nrows, ctls, mode, withsub, export):
    return tlc.cfg(constants={"Names": set(names), "Doses": set(doses), "Zero": 1, "Arity": arity, "NRows": nrows,
                              "Ctls": set(ctls), "Mode": mode, "WithSub": withsub, "Export": export}, invariants=INVS)


_LAYOUT = [0]


def _screen(tn, td, sn, pn, ctl, tmap=None, smap=None):
    # the memory layout of the caller's arrays is not part of their value: every third construction hands the names and doses over
    # column-major (what `np.array([col_a, col_b]).T` or a DataFrame selection gives), every third only the names
    _LAYOUT[0] += 1
    if getattr(tn, "ndim", 1) == 2 and tn.shape[0] > 1 and tn.shape[1] > 1:
        if _LAYOUT[0] % 3 == 1:
            tn, td = np.asfortranarray(tn), np.asfortranarray(td)
        elif _LAYOUT[0] % 3 == 2:
            tn = np.asfortranarray(tn)
    return outcome(Screen, treatment_names=tn, treatment_doses=td, sample_names=sn, plate_names=pn,
                   control_treatment_name=ctl, treatment_mapping=tmap, sample_mapping=smap)


def _replay_case(ctx, e, names, doses):
    """one exported case -> real Screen; compare with the specification's result"""
    ar, rows = e["arity"], e["rows"]
    nr = len(rows)
    if e["mode"] == "treat":
        tn = np.array([[names[c[0]] for c in r] for r in rows], dtype=str).reshape(nr, ar)
        td = np.array([[doses[c[1]] for c in r] for r in rows], dtype=float).reshape(nr, ar)
        sn = np.array(["s%d" % (i % 2) for i in range(nr)], dtype=str)
        ctl = names[e["ctl"]] if e["ctl"] < len(names) else ABSENT
    else:
        tn = np.array([["x"] for _ in rows], dtype=str)
        td = np.array([[1.0] for _ in rows], dtype=float)
        sn = np.array([names[r] for r in rows], dtype=str)
        ctl = ""
    pn = sn.copy() if e["mode"] == "oned" else np.array(["p"] * nr, dtype=str)
    st, scr = _screen(tn, td, sn, pn, ctl)
    if st != "ok":
        return "constructor raised: " + scr
    if e["mode"] == "treat":
        want_ids = [list(r) for r in e["full"]["ids"]]
        if scr.treatment_ids.tolist() != want_ids:
            return "treatment_ids %s, specification %s" % (scr.treatment_ids.tolist(), want_ids)
        mp = scr.treatment_mapping
        got_mp = [[str(a), float(b), int(c)] for a, b, c in zip(*mp)]
        want_mp = [[names[m[0]], doses[m[1]], m[2]] for m in e["full"]["mapping"]]
        if [(a, c) for a, b, c in got_mp] != [(a, c) for a, b, c in want_mp] or any(
                g[1] != w[1] for g, w in zip(got_mp, want_mp)):
            return "treatment_mapping %s, specification %s" % (got_mp, want_mp)
        sp = ExperimentSpace.from_screen(scr)
        if sp.n_unique_treatments != e["nut"] or (scr.treatment_ids >= sp.n_unique_treatments).any():
            return "n_unique_treatments %s, specification %s" % (sp.n_unique_treatments, e["nut"])
    else:
        for what, ids, mpg in (("sample", scr.sample_ids, scr.sample_mapping), ("plate", scr.plate_ids, scr.plate_mapping)):
            if [int(x) for x in ids] != list(e["full"]["ids"]):
                return "%s ids %s, specification %s" % (what, list(ids), e["full"]["ids"])
            if [[str(a), int(b)] for a, b in zip(*mpg)] != [[names[m[0]], m[1]] for m in e["full"]["mapping"]]:
                return "%s mapping differs" % what
        sp = ExperimentSpace.from_screen(scr)
        if sp.n_unique_samples != e["nut"] or (scr.sample_ids >= sp.n_unique_samples).any():
            return "n_unique_samples %s, specification %s" % (sp.n_unique_samples, e["nut"])
    if e["sub"]:
        idx = [i - 1 for i in e["sub"]]
        d = e["drop"]

        def withheld(arrs):
            n = len(arrs[0])
            if d == 0 or d > n:
                return tuple(a.copy() for a in arrs)
            keep = [i for i in range(n) if i != d - 1]
            return tuple(a[keep] for a in arrs)
        if e["mode"] == "treat":
            tmap, smap = withheld(scr.treatment_mapping), scr.sample_mapping
        else:
            tmap, smap = scr.treatment_mapping, withheld(scr.sample_mapping)
        st2, s2 = _screen(tn[idx], td[idx], sn[idx], pn[idx], ctl, tmap=tmap, smap=smap)
        want_ok = e["subres"]["status"] == "ok"
        if (st2 == "ok") != want_ok:
            return "sub-screen with supplied mapping (drop=%d): specification status %s, code %s" % (
                d, e["subres"]["status"], st2 if st2 == "ok" else s2)
        if want_ok:
            if e["mode"] == "treat":
                if s2.treatment_ids.tolist() != [list(r) for r in e["subres"]["ids"]]:
                    return "sub-screen ids %s, specification %s" % (s2.treatment_ids.tolist(), e["subres"]["ids"])
                for a, b in zip(s2.treatment_mapping, tmap):
                    if a.tolist() != b.tolist():
                        return "supplied treatment mapping not returned verbatim"
            else:
                if [int(x) for x in s2.sample_ids] != list(e["subres"]["ids"]):
                    return "sub-screen sample ids %s, specification %s" % (list(s2.sample_ids), e["subres"]["ids"])
                for a, b in zip(s2.sample_mapping, smap):
                    if a.tolist() != b.tolist():
                        return "supplied sample mapping not returned verbatim"
        elif not str(s2).startswith("ValueError"):
            return "rejection is not a ValueError: " + str(s2)
    return None


def _trace(tn, td, sn, pn, ctl, rnd, sub_idx=None, drop=0, sdrop=0):
    """real Screen for the given arrays -> tokens (a TraceEncoding trace); optionally a second construction of the rows sub_idx with
    the mappings the first one produced (entry `drop` / `sdrop` withheld)"""
    nr, ar = tn.shape
    st, scr = _screen(tn, td, sn, pn, ctl)
    if st != "ok":
        return {"raised": scr, "arity": ar}
    names = sorted(set(tn.ravel().tolist()) | {ctl} | set(str(x) for x in scr.treatment_mapping[0]))
    ntok = {s: i for i, s in enumerate(names)}
    dvals = sorted(set(float(x) for x in td.ravel()) | set(float(x) for x in scr.treatment_mapping[1]))
    dvals = sorted(set(0.0 if v == 0 else v for v in dvals))
    neg = [v for v in dvals if v < 0]
    pos = [v for v in dvals if v > 0]
    dtok = {0.0: ZERO}
    for i, v in enumerate(neg):
        dtok[v] = ZERO - len(neg) + i
    for i, v in enumerate(pos):
        dtok[v] = ZERO + 1 + i

    def dt(v):
        v = float(v)
        return dtok.get(0.0 if v == 0 else v, 9999)
    s_all = sorted(set(sn.tolist()) | set(pn.tolist()))
    stok = {s: i for i, s in enumerate(s_all)}

    def got(s):
        sp = ExperimentSpace.from_screen(s)
        return {"ids": s.treatment_ids.astype(int).tolist(),
                "mapping": [[ntok.get(str(a), 9999), dt(b), int(c)] for a, b, c in zip(*s.treatment_mapping)],
                "nut": int(sp.n_unique_treatments), "nus": int(sp.n_unique_samples),
                "sids": [int(x) for x in s.sample_ids], "smap": [[stok.get(str(a), 9999), int(b)] for a, b in zip(*s.sample_mapping)],
                "pids": [int(x) for x in s.plate_ids], "pmap": [[stok.get(str(a), 9999), int(b)] for a, b in zip(*s.plate_mapping)]}
    t = {"arity": ar, "ctl": ntok[ctl],
         "rows": [[[ntok[tn[r, a]], dt(td[r, a])] for a in range(ar)] for r in range(nr)],
         "samples": [stok[x] for x in sn], "plates": [stok[x] for x in pn], "got": got(scr),
         "hassub": False, "sub": [], "drop": 0, "sdrop": 0,
         "subgot": {"ok": False, "ids": [], "mapping": [], "sids": [], "smap": [], "nut": 0}}
    if sub_idx:
        idx = list(sub_idx)

        def wh(arrs, d):
            if d == 0 or d > len(arrs[0]):
                return tuple(a.copy() for a in arrs)
            keep = [i for i in range(len(arrs[0])) if i != d - 1]
            return tuple(a[keep] for a in arrs)
        # arrays sized for the rows they hold (a slice of a file read later is not as wide as the longest name of the whole study)
        tight = lambda a: np.array(a.tolist(), dtype=str).reshape(a.shape)
        st2, s2 = _screen(tight(tn[idx]), td[idx], tight(sn[idx]), tight(pn[idx]), ctl, tmap=wh(scr.treatment_mapping, drop), smap=wh(scr.sample_mapping, sdrop))
        t.update({"hassub": True, "sub": [i + 1 for i in idx], "drop": drop, "sdrop": sdrop})
        if st2 == "ok":
            g = got(s2)
            t["subgot"] = {"ok": True, "ids": g["ids"], "mapping": g["mapping"], "sids": g["sids"], "smap": g["smap"], "nut": g["nut"]}
        else:
            t["subgot"]["err"] = s2
            if not str(s2).startswith("ValueError"):
                t["raised"] = "rejection of a supplied mapping is not a ValueError: " + str(s2)
    return t


def _project(rnd, nr, ar, with_sub=True):
    """random real input (unicode / empty / whitespace names, subnormal / negative / repeated doses)"""
    pool = rnd.choice(NAMESETS) + rnd.sample(["x", "X", "drugA", "drugB", "α", "à", "\U00010348", "0", "-"], 3)
    dpool = rnd.sample([-2.0, -5e-324, -0.0, 0.0, 5e-324, 1e-310, 1e-9, 0.5, 1.0, 1.0 + 2 ** -52, 10.0, 1e300, -1e-300], 6)
    ctl = rnd.choice(pool + [ABSENT, ""])
    tn = np.array([[rnd.choice(pool) for _ in range(ar)] for _ in range(nr)], dtype=str).reshape(nr, ar)
    td = np.array([[rnd.choice(dpool) for _ in range(ar)] for _ in range(nr)], dtype=float).reshape(nr, ar)
    spool = rnd.sample(pool, 3)
    if rnd.random() < 0.3:
        spool = [spool[0], spool[0] + " ", " " + spool[0]]      # names that differ only by surrounding whitespace are different names
    sn = np.array([rnd.choice(spool) for _ in range(nr)], dtype=str)
    pn = np.array([rnd.choice(spool + ["plate"]) for _ in range(nr)], dtype=str)
    if with_sub and nr >= 2:
        idx = sorted(rnd.sample(range(nr), rnd.randint(1, nr - 1)))
        return _trace(tn, td, sn, pn, ctl, rnd, idx, rnd.choice([0, 0, rnd.randint(1, 2 * nr)]), rnd.choice([0, 0, 0, rnd.randint(1, 3)]))
    return _trace(tn, td, sn, pn, ctl, rnd)


def _case_trace(e, names, doses, rnd):
    """an input TLC explored, concretised, through the same comparator"""
    ar, rows = e["arity"], e["rows"]
    nr = len(rows)
    if e["mode"] == "treat":
        tn = np.array([[names[c[0]] for c in r] for r in rows], dtype=str).reshape(nr, ar)
        td = np.array([[doses[c[1]] for c in r] for r in rows], dtype=float).reshape(nr, ar)
        sn = np.array(["s%d" % (i % 2) for i in range(nr)], dtype=str)
        ctl = names[e["ctl"]] if e["ctl"] < len(names) else ABSENT
        pn = np.array(["p"] * nr, dtype=str)
    else:
        tn = np.array([["x"] for _ in rows], dtype=str)
        td = np.array([[1.0] for _ in rows], dtype=float)
        sn = np.array([names[r] for r in rows], dtype=str)
        ctl, pn = "", sn.copy()
    idx = [i - 1 for i in e["sub"]] if e["sub"] else None
    return _trace(tn, td, sn, pn, ctl, rnd, idx, e["drop"] if e["mode"] == "treat" else 0, e["drop"] if e["mode"] == "oned" else 0)


CONFIGS_Q = [  # names, doses, arity, rows, ctls, mode, withsub
    ([0, 1, 2], [0, 1, 2, 3], 1, 3, [0, 1, 2, 9], "treat", True),
    ([0, 1], [0, 1, 2], 2, 2, [0, 1, 9], "treat", True),
    ([0, 1], [1, 2], 3, 2, [0, 9], "treat", False),
    ([0, 1, 2], [1], 1, 4, [9], "oned", True),
]
CONFIGS_T = [
    ([0, 1, 2], [0, 1, 2, 3], 1, 3, [0, 1, 2, 9], "treat", True),
    ([0, 1, 2], [0, 1, 2, 3], 2, 2, [0, 1, 2, 9], "treat", True),
    ([0, 1], [0, 1, 2], 3, 2, [0, 1, 9], "treat", True),
    ([0, 1, 2], [0, 1, 2], 2, 3, [1, 9], "treat", False),
    ([0, 1, 2, 3], [1], 1, 5, [9], "oned", True),
]


EXPORT_Q = [
    ([0, 1, 2], [0, 1, 2, 3], 1, 2, [0, 9], "treat", True),
    ([0, 1], [0, 1, 2], 2, 2, [1, 9], "treat", True),
    ([0, 1], [1, 2], 3, 1, [0, 9], "treat", False),
    ([0, 1, 2], [1], 1, 3, [9], "oned", True),
]
EXPORT_T = [
    ([0, 1, 2], [0, 1, 2, 3], 1, 3, [0, 1, 9], "treat", True),
    ([0, 1, 2], [0, 1, 2, 3], 2, 2, [0, 2, 9], "treat", True),
    ([0, 1], [0, 1, 2], 3, 2, [0, 9], "treat", True),
    ([0, 1, 2], [1], 1, 4, [9], "oned", True),
]


def run(ctx):
    from harness import tlc
    from harness.tracecheck import validate
    rnd = random.Random(ctx.seed)
    total_cases = 0
    traces_b = []
    for ci, c in enumerate(CONFIGS_Q if ctx.quick else CONFIGS_T):
        r = ctx.tlc("Encoding", _cfg(tlc, *c, export=False), note="exhaustive %s arity=%d rows=%d sub=%s" % (c[5], c[2], c[3], c[6]),
                    coverage=True)
        if r.violation:
            ctx.violation("design-level: %s violated" % r.violation, {"tlc": r.violation_text})
        ctx.need_coverage(r, ["Compute"])
    # (B) export the explored cases of the replay configurations and push them through the real constructor
    budget = 1600 if ctx.quick else 30000
    exp = EXPORT_Q if ctx.quick else EXPORT_T
    for c in exp:
        r = ctx.tlc("Encoding", _cfg(tlc, *c, export=True), note="export %s arity=%d rows=%d" % (c[5], c[2], c[3]), workers=1, count=False)
        cases = r.by_tag("enc")
        share = budget // len(exp)
        if len(cases) > share:
            cases = rnd.sample(cases, share)
        for e in cases:
            for k in range(1 if ctx.quick else 3):
                j = (k + total_cases) % 4
                traces_b.append(_case_trace(e, NAMESETS[j], DOSESETS[(j + k + total_cases // 4) % 4], rnd))
                ctx.evaluations += 1
            total_cases += 1
        if cases:
            ctx.sample({"spec_to_code_input": {k: cases[len(cases) // 2][k] for k in ("mode", "arity", "rows", "ctl", "sub", "drop")}})
    ctx.exhaustive = True
    ctx.extra["spec_to_code_cases"] = total_cases
    # (C) larger random inputs, real constructor, validated by TraceEncoding
    traces = list(traces_b)
    for _ in range(250 if ctx.quick else 3000):
        traces.append(_project(rnd, rnd.randint(1, 40), rnd.choice([1, 2, 2, 3])))
    msg = big_encoding(ctx)
    if msg:
        ctx.violation(msg, {"kind": "big-encoding"})
    _decide(ctx, traces)
    ctx.assumptions += ["NaN/inf doses and supplied mappings with duplicate keys are outside the quantifier",
                        "name order is Python code-point order (what pandas/numpy use for str/object arrays)"]


def big_encoding(ctx):
    """C01 at study size (tens of thousands of distinct conditions, samples, plates; TLC validates the small ones): the clauses evaluated
    in the harness - ids decode through the mapping, non-control ids are the dense range, control exactly for the control name or a
    non-positive dose, the experiment-space sizes bound every id"""
    nd, ndose = (220, 160) if ctx.quick else (300, 200)
    names = np.array(["drug%03d" % (i // ndose) for i in range(nd * ndose)] + ["ctl", "drug000"], dtype=str).reshape(-1, 1)
    doses = np.array([0.5 + (i % ndose) for i in range(nd * ndose)] + [1.0, 0.0], dtype=float).reshape(-1, 1)
    n = len(names)
    sn = np.array(["s%05d" % (i % 40000) for i in range(n)], dtype=str)
    pn = np.array(["p%05d" % (i % 33000) for i in range(n)], dtype=str)
    st, scr = _screen(names, doses, sn, pn, "ctl")
    ctx.evaluations += 1
    if st != "ok":
        return "Screen(...) of %d experiments raised %s" % (n, scr)
    tm = {int(c): (str(a), float(b)) for a, b, c in zip(*scr.treatment_mapping)}
    ids = scr.treatment_ids[:, 0].astype(int)
    for i in (0, 1, n // 2, 32767, 32768, 32769, n - 3, n - 2, n - 1):
        want_ctl = names[i, 0] == "ctl" or doses[i, 0] <= 0
        if (ids[i] == -1) != want_ctl or (not want_ctl and tm.get(int(ids[i])) != (str(names[i, 0]), float(doses[i, 0]))):
            return "screen of %d conditions: experiment %d (%s, %g) has treatment id %d, which the mapping decodes as %s" % (
                nd * ndose, i, names[i, 0], doses[i, 0], ids[i], tm.get(int(ids[i])))
    non = sorted(set(ids.tolist()) - {-1})
    sp = ExperimentSpace.from_screen(scr)
    if non != list(range(len(non))) or len(non) != nd * ndose or int(sp.n_unique_treatments) != len(non):
        return "screen of %d conditions: non-control treatment ids are not the dense range 0..%d (min %d, max %d, %d distinct; n_unique_treatments %d)" % (
            nd * ndose, nd * ndose - 1, non[0], non[-1], len(non), int(sp.n_unique_treatments))
    for what, arr, names_, nuniq in (("sample", scr.sample_ids, sn, int(sp.n_unique_samples)), ("plate", scr.plate_ids, pn, None)):
        a = np.asarray(arr).astype(int)
        k = len(set(names_.tolist()))
        if sorted(set(a.tolist())) != list(range(k)) or len({(x, y) for x, y in zip(a.tolist(), names_.tolist())}) != k or (nuniq is not None and a.max() >= nuniq):
            return "screen with %d %ss: %s ids are not a one-to-one dense encoding of the names (min %d, max %d, %d distinct)" % (k, what, what, a.min(), a.max(), len(set(a.tolist())))
    return None


def _decide(ctx, traces):
    from harness.tracecheck import validate, selftest
    ok = []
    for t in traces:
        if "raised" in t:
            ctx.violation("Screen(...) raised on a valid input: %s" % t["raised"], {"kind": "raw", "trace": t})
        else:
            ok.append(t)
    consts = {"Names": {0}, "Doses": {0}, "Zero": ZERO, "Arity": 1, "NRows": 1, "Ctls": {0}, "Mode": "treat", "WithSub": False, "Export": False}
    # the verdict: the clauses of C01 on the real output, whatever numbering the encoder chose
    bad = validate(ctx, "TraceEncoding", ok, decide="Decide", next_="TNext", init="TInit", chunk=1500, constants=dict(consts, Strict=False),
                   note="clauses of C01 on real screens")
    for i, clause in bad[:3]:
        ctx.violation("real Screen violates '%s': %s" % (clause, json.dumps(ok[i])[:500]), {"kind": "raw", "trace": ok[i], "clause": clause})
    # conformance of the transcription (ids in sorted order, mapping layout): binds the exhaustive TLC result to this code
    before = ctx.traces
    drift = validate(ctx, "TraceEncoding", ok, decide="Decide", next_="TNext", init="TInit", chunk=1500, constants=dict(consts, Strict=True),
                     note="equality with the transcribed encoder")
    ctx.traces = before
    only = [d for d in drift if d[0] not in {b[0] for b in bad}]
    ctx.extra["model_drift"] = len(only)
    if only:
        print("NOTE model-drift property=C01: %d screen(s) satisfy every clause of C01 but are not what Encoding.tla computes (first at '%s'); "
              "the transcription of the encoder needs updating" % (len(only), only[0][1]))
    if ok and not bad:
        def corrupt(t):
            t["got"]["ids"][0][0] += 1
            return "one logged treatment id incremented"
        selftest(ctx, "TraceEncoding", ok[0], corrupt, decide="Decide", next_="TNext", init="TInit", constants=dict(consts, Strict=False))
    if ok:
        ctx.sample({"code_to_spec": ok[0]})


def replay(ctx, rp):
    if rp.get("kind") == "big-encoding":
        msg = big_encoding(ctx)
        if msg:
            ctx.violation(msg, rp)
        return
    _decide(ctx, [rp["trace"]])
