"""C04 - masked observations never influence training, scoring or selection (TrainSet.tla, Functional.tla)."""
import functools, hashlib, json, math, os, random, shutil, sys, tempfile
import numpy as np

from batchie import sampling
from batchie.core import ThetaHolder
from batchie.data import Screen, ExperimentSpace
from batchie.distance.mse import MSEDistance
from batchie.distance_calculation import calculate_pairwise_distance_matrix_on_predictions, ChunkedDistanceMatrix
from batchie.models import sparse_combo as SC, sparse_combo_interaction as SI
from batchie.scoring.gaussian_dbal import GaussianDBALScorer
from batchie.scoring.main import score_chunk, select_next_plate, ChunkedScoresHolder
from batchie.scoring.rand import RandomScorer
from batchie.scoring.size import SizeScorer
from harness.terms import ev, close
from harness.util import outcome, bits, Interner

TN = ["t0", "t1"]
SMAP = (np.array(["s0", "s1"], dtype=str), np.array([0, 1]))
TMAP = (np.array(["ctl", "t0", "t1"], dtype=str), np.array([0.0, 1.0, 1.0]), np.array([-1, 0, 1]))
CLASSVAL = {"ok": None, "zero": 0.0, "one": 1.0, "neg": -0.25, "nan": float("nan")}


def build(rows, rng, ok_range=(0.05, 0.95)):
    n = len(rows)
    tn = np.array([[("ctl" if t < 0 else TN[t]) for t in r["t"]] for r in rows], dtype=str)
    td = np.array([[(0.0 if t < 0 else 1.0) for t in r["t"]] for r in rows], dtype=float)
    sn = np.array(["s%d" % r["s"] for r in rows], dtype=str)
    pn = np.array(["p%d" % i for i in range(n)], dtype=str)            # one plate per row: any mask is plate-uniform
    def okval():
        # mostly ordinary viabilities; sometimes values at the edges of the documented transformation (inside the clipping bands)
        u = rng.random()
        if u < 0.15:
            return float(rng.choice([0.004, 1e-9, 0.0099, 0.0101]))
        if u < 0.3:
            return float(rng.choice([0.996, 0.9901, 1 - 1e-12, 0.9899]))
        return rng.uniform(*ok_range)
    obs = np.array([CLASSVAL[r["c"]] if CLASSVAL[r["c"]] is not None else okval() for r in rows], dtype=float)
    mask = np.array([bool(r["m"]) for r in rows])
    return Screen(treatment_names=tn, treatment_doses=td, sample_names=sn, plate_names=pn, observations=obs, observation_mask=mask,
                  control_treatment_name="ctl", sample_mapping=SMAP, treatment_mapping=TMAP)


def index_maps_ok(wm):
    """part of the data handed to the sampler: for every sample / first / second treatment id the positions of its training data"""
    n = len(wm.y)
    for maps, col in ((wm.cline_idxs, wm.cline), (wm.dd1_idxs, wm.dd1), (wm.dd2_idxs, wm.dd2)):
        want = {}
        for i in range(n):
            want.setdefault(int(col[i]), []).append(i)
        got = {int(k): [int(x) for x in v] for k, v in maps.items() if len(v)}
        if got != want:
            return False
    return True


def train_path(model, scr):
    """what cli/train_model.py does"""
    sub = scr.subset_observed()
    if sub is not None:
        model.add_observations(sub)
    return model


CLI_TMP = [None]


def cli_train_path(kind, scr):
    """the REAL train_model command on the saved screen, stopped where it would start sampling: returns the model it built"""
    import types
    from batchie.cli import train_model as tm
    fn = os.path.join(CLI_TMP[0], "train_in.h5")
    scr.save_h5(fn)
    got = {}

    class Stop:
        @staticmethod
        def sample(model, results=None, *a, **k):
            got["model"] = model
            return types.SimpleNamespace(save_h5=lambda f: None)
    old_s, old_argv = tm.sampling, sys.argv
    tm.sampling = Stop
    sys.argv = ["x", "--data", fn, "--model", "SparseDrugCombo" if kind == "combo" else "SparseDrugComboInteraction", "--model-param", "n_embedding_dimensions=2",
                "--output", os.path.join(CLI_TMP[0], "th.h5"), "--n-samples", "1", "--n-burnin", "0", "--thin", "1", "--n-chains", "1", "--chain-index", "0", "--seed", "0"]
    try:
        tm.main()
    finally:
        tm.sampling, sys.argv = old_s, old_argv
    return got["model"]


def check_case(e, rng, via_cli=False):
    rows = e["rows"]
    for kind in ("combo", "inter"):
        scr = build(rows, rng, ok_range=(0.05, 1.4) if kind == "combo" else (0.05, 0.95))
        env = {"obs": scr.observations}
        sp = ExperimentSpace.from_screen(scr)
        model = (SC.SparseDrugCombo if kind == "combo" else SI.SparseDrugComboInteraction)(experiment_space=sp, n_embedding_dimensions=2)
        if via_cli:
            st, r = outcome(cli_train_path, kind, scr)
            if st == "ok":
                model = r
        else:
            st, r = outcome(train_path, model, scr)
        if e["refuse"] and st != "ok" and not via_cli and model.n_obs() != 0:
            return "%s refused the input but kept %d of its experiments as training data" % (kind, model.n_obs())
        if e["refuse"]:
            if st == "ok":
                return "%s accepted observed negative / NaN observations (value classes %s)" % (kind, [(x["c"], x["m"]) for x in rows])
            if not r.startswith("ValueError"):
                return "%s refusal is not a ValueError: %s" % (kind, r)
            continue
        if st != "ok":
            return "%s refused / raised on valid input: %s" % (kind, r)
        wm = model.wrapped_model
        want = e["combo"] if kind == "combo" else e["inter"]
        if model.n_obs() != len(want) or len(wm.y) != len(want):
            return "%s trained on %d experiments, documented: %d (rows %s)" % (kind, model.n_obs(), len(want), [(x["t"], x["m"]) for x in rows])
        # "exactly the observed experiments, each exactly once, transformed as documented": a multiset - the order in which the model
        # stores its data is not part of C04 (the documented order is tried first, then any datum not matched yet)
        left = list(range(len(wm.y)))
        for i, w in enumerate(want):
            wy, mag = ev(w["y"], env)
            hit = None
            for j in ([i] if i in left else []) + [x for x in left if x != i]:
                got = (float(wm.y[j]), int(wm.cline[j]), int(wm.dd1[j]), int(wm.dd2[j]))
                if (got[1], got[2], got[3]) == (w["cl"], w["dd1"], w["dd2"]) and close(got[0], wy, mag, 5e-4):
                    hit = j
                    break
            if hit is None:
                got = (float(wm.y[i]), int(wm.cline[i]), int(wm.dd1[i]), int(wm.dd2[i])) if i < len(wm.y) else None
                return "%s: no training datum is the documented (%.9g, %d, %d, %d) of row %d (datum %d is %s)" % (kind, wy, w["cl"], w["dd1"], w["dd2"], w["row"], i, got)
            left.remove(hit)
        if not index_maps_ok(wm):
            return "%s: the per-sample / per-treatment index lists of the training data do not list each datum exactly once under its own ids" % kind
        if kind == "combo" and len(want) >= 2:
            # the same observed experiments handed over in two calls (plate by plate, as a running screen would): same training set
            m2 = SC.SparseDrugCombo(experiment_space=sp, n_embedding_dimensions=2)
            orows = [w["row"] for w in want]
            k = 1 + int(rng.integers(len(orows) - 1))
            for part in (orows[:k], orows[k:]):
                sel = np.zeros(scr.size, dtype=bool)
                sel[part] = True
                st2, r2 = outcome(m2.add_observations, scr.subset(sel))
                if st2 != "ok":
                    return "combo refused the observed experiments when handed over in two calls: %s" % r2
            w2 = m2.wrapped_model
            a = [(bits(float(w2.y[i])), int(w2.cline[i]), int(w2.dd1[i]), int(w2.dd2[i])) for i in range(len(w2.y))]
            b = [(bits(float(wm.y[i])), int(wm.cline[i]), int(wm.dd1[i]), int(wm.dd2[i])) for i in range(len(wm.y))]
            idx_ok = index_maps_ok(w2)
            if m2.n_obs() != len(want) or sorted(a) != sorted(b) or not idx_ok:
                return "combo handed the observed experiments in two calls holds %s (index maps consistent: %s), in one call %s" % (a, idx_ok, b)
        if kind == "inter":
            gt = {(int(a), int(b)): float(v) for (a, b), v in model.single_effect_lookup.items()}
            wt = {(x["s"], x["t"]): ev(x["v"], env) for x in e["table"]}
            if set(gt) != set(wt) or any(not close(gt[k], wt[k][0], wt[k][1], 1e-9) for k in wt):
                return "interaction model single-effect table %s, documented %s" % (sorted(gt.items()), sorted((k, v[0]) for k, v in wt.items()))
    # direct add_observations on data that still contains masked rows
    scr = build([dict(r, c="ok") for r in rows], rng)
    for cls in (SC.SparseDrugCombo, SI.SparseDrugComboInteraction):
        model = cls(experiment_space=ExperimentSpace.from_screen(scr), n_embedding_dimensions=1)
        st, r = outcome(model.add_observations, scr)
        if e["direct_refuse"] and st == "ok":
            return "%s.add_observations accepted data with masked rows" % cls.__name__
        if not e["direct_refuse"] and st != "ok":
            return "%s.add_observations refused fully observed data: %s" % (cls.__name__, r)
    return None


# ---------------- non-interference -----------------------------------------------------------------
class GlobalRng:
    """generator facade drawing from numpy's global state, so that np.random.seed fixes every draw of the legacy samplers"""

    def normal(self, loc=0.0, scale=1.0, size=None):
        return np.random.normal(loc, scale, size)


def _patch_mvn():
    saved = (SC.sample_mvn_from_precision, SI.sample_mvn_from_precision)
    from batchie.fast_mvn import sample_mvn_from_precision as real
    f = functools.partial(real, rng=GlobalRng())
    SC.sample_mvn_from_precision = f
    SI.sample_mvn_from_precision = f
    return saved


def _unpatch_mvn(saved):
    SC.sample_mvn_from_precision, SI.sample_mvn_from_precision = saved


def hd(*parts):
    h = hashlib.sha1()
    for p in parts:
        h.update(p if isinstance(p, bytes) else repr(p).encode())
    return h.hexdigest()[:16]


def theta_bytes(t):
    out = b""
    for k in sorted(t.__dict__):
        v = t.__dict__[k]
        out += v.tobytes() if isinstance(v, np.ndarray) else repr(sorted(v.items()) if isinstance(v, dict) else bits(v)).encode()
    return out


def pipeline_events(scr, label, it, rnd_params, tmp):
    """run every stage on a partially observed screen; one call event per stage, keyed by the OBSERVED projection"""
    obs_proj = hd(scr.treatment_names.tobytes(), scr.treatment_doses.tobytes(), scr.sample_names.tobytes(), scr.plate_names.tobytes(),
                  scr.observation_mask.tobytes(), scr.observations[scr.observation_mask].tobytes())
    events = []

    def call(stage, params, out):
        events.append({"ev": "call", "what": stage, "key": it((stage, obs_proj, repr(params))), "out": it(out), "g0": 0, "g1": 0})
    sp = ExperimentSpace.from_screen(scr)
    for mname, cls in (("SparseDrugCombo", SC.SparseDrugCombo), ("SparseDrugComboInteraction", SI.SparseDrugComboInteraction)):
        model = cls(experiment_space=sp, n_embedding_dimensions=2)
        st, r = outcome(train_path, model, scr)
        if st != "ok":
            call("model-data:" + mname, (), "refused:" + r[:40])
            continue
        wm = model.wrapped_model
        call("model-data:" + mname, (), hd(np.asarray(wm.y, dtype=float).tobytes(), repr(list(map(int, wm.cline))), repr(list(map(int, wm.dd1))), repr(list(map(int, wm.dd2))),
                                          repr(sorted((int(a), int(b), bits(v)) for (a, b), v in getattr(model, "single_effect_lookup", {}).items()))))
        np.random.seed(12345)
        st, h = outcome(sampling.sample, model, ThetaHolder(n_thetas=4), 7, n_chains=1, chain_index=0, n_burnin=1, thin=1)
        if st != "ok":
            call("thetas:" + mname, (), "raised:" + h[:60])
            continue
        call("thetas:" + mname, (), hd(*[theta_bytes(t) for t in h.thetas]))
        nch = rnd_params["dist_chunks"]
        mats = []
        for c in range(nch):
            st, m = outcome(calculate_pairwise_distance_matrix_on_predictions, h, MSEDistance(), scr, c, nch)
            if st != "ok":
                call("distance-chunk:" + mname, (c, nch), "raised:" + m[:60])      # failing identically is "the same output"
                mats = None
                break
            mats.append(m)
            call("distance-chunk:" + mname, (c, nch), hd(m.row_indices[:m.current_index].tobytes(), m.col_indices[:m.current_index].tobytes(), m.values[:m.current_index].tobytes()))
        if mats is None:
            continue
        dm = ChunkedDistanceMatrix.concat(mats)
        batch = rnd_params["batch"]
        for sname, scorer in (("GaussianDBALScorer", GaussianDBALScorer(max_chunk=2)), ("RandomScorer", RandomScorer()), ("SizeScorer", SizeScorer())):
            holders = []
            for c in range(rnd_params["score_chunks"]):
                st, sh = outcome(score_chunk, scorer, h, scr, dm, np.random.default_rng(99), False, rnd_params["score_chunks"], c, batch or None)
                if st != "ok":
                    call("scores:" + mname + ":" + sname, (c, rnd_params["score_chunks"], batch), "raised:" + sh[:60])
                    break
                holders.append(sh)
                call("scores:" + mname + ":" + sname, (c, rnd_params["score_chunks"], batch), hd(sh.scores.tobytes(), sh.plate_ids.tobytes()))
            else:
                allh = ChunkedScoresHolder.concat(holders)
                st, pl = outcome(select_next_plate, allh, scr, None, batch or None, np.random.default_rng(3))
                call("selected:" + mname + ":" + sname, (rnd_params["score_chunks"], batch), "none" if (st == "ok" and pl is None) else (str(int(pl.plate_id)) if st == "ok" else "raised:" + pl[:40]))
    return events


def run(ctx):
    from harness import tlc
    from harness.tracecheck import validate
    rnd = random.Random(ctx.seed)
    rng = np.random.default_rng(ctx.seed)
    classes = {"ok", "zero", "one", "neg", "nan"}
    nrows = 2 if ctx.quick else 3
    r = ctx.tlc("TrainSet", tlc.cfg(constants={"NRows": nrows, "Classes": classes if nrows == 2 else {"ok", "neg", "nan"}, "Export": True},
                                    invariants=["OnlyObserved", "ExactlyOnce", "ExportCase"]),
                note="every screen of %d rows: 2 samples, control in either/both positions, self-pair, any mask, value classes" % nrows, workers=1, coverage=True)
    if r.violation:
        ctx.violation("design-level: TrainSet violates %s" % r.violation, {"kind": "tlc", "tlc": r.violation_text[:3000]})
    cases = r.by_tag("train")
    budget = 2500 if ctx.quick else 40000
    pick = cases if len(cases) <= budget else rnd.sample(cases, budget)
    nbad = 0
    CLI_TMP[0] = tempfile.mkdtemp(prefix="verif-c04-cli-")
    for ci_, e in enumerate(pick):
        msg = check_case(e, rng) or (check_case(e, rng, via_cli=True) if ci_ % 3 == 0 else None)
        ctx.evaluations += 1
        if msg:
            nbad += 1
            if nbad <= 4:
                ctx.violation(msg, {"kind": "train", "rows": e["rows"]})
            if nbad > 20:
                break
    # a screen of study size (thousands of observed experiments): still exactly the observed experiments, each once, transformed as documented
    for N in ((5400,) if ctx.quick else (4096, 5400, 9000)):
        rows = [{"s": int(rng.integers(2)), "t": [int(rng.integers(-1, 2)), int(rng.integers(-1, 2))], "m": bool(rng.random() < 0.9), "c": "ok"} for _ in range(N)]
        scr = build(rows, rng, ok_range=(0.05, 1.4))
        model = SC.SparseDrugCombo(experiment_space=ExperimentSpace.from_screen(scr), n_embedding_dimensions=1)
        st, r = outcome(train_path, model, scr)
        ctx.evaluations += 1
        if st != "ok":
            ctx.violation("combo refused / raised on a screen of %d experiments: %s" % (N, r), {"kind": "large", "N": N})
            continue
        wm = model.wrapped_model
        obs_idx = [i for i, x in enumerate(rows) if x["m"]]
        def groups(items):
            g = {}
            for key, yv in items:
                g.setdefault(key, []).append(yv)
            return {k_: sorted(v) for k_, v in g.items()}

        def logit_clip(v):
            v = min(max(float(v), 0.01), 0.99)
            return math.log(v / (1 - v))
        want_g = groups(((rows[i]["s"], rows[i]["t"][0], rows[i]["t"][1]), logit_clip(scr.observations[i])) for i in obs_idx)
        got_g = groups(((int(wm.cline[j]), int(wm.dd1[j]), int(wm.dd2[j])), float(wm.y[j])) for j in range(len(wm.y)))
        got, want = 0, 0
        if set(got_g) != set(want_g) or any(len(got_g[k_]) != len(want_g[k_]) or not np.allclose(got_g[k_], want_g[k_], rtol=0, atol=5e-3) for k_ in want_g):
            got = 1
        if model.n_obs() != len(obs_idx) or got != want or not index_maps_ok(wm):
            ctx.violation("combo on a screen of %d experiments (%d observed) holds %d training data; as a multiset they %s the documented ones" % (
                N, len(obs_idx), model.n_obs(), "are" if got == want else "are not"), {"kind": "large", "N": N})
    shutil.rmtree(CLI_TMP[0], ignore_errors=True)
    ctx.traces += len(pick)
    ctx.exhaustive = len(pick) == len(cases)
    ctx.sample({"train_case": {"rows": pick[len(pick) // 2]["rows"], "combo": pick[len(pick) // 2]["combo"]}})
    # (ii) non-interference: pairs of screens that differ only behind the mask
    saved_state = np.random.get_state()
    saved = _patch_mvn()
    tmp = tempfile.mkdtemp(prefix="verif-c04-")
    traces = []
    try:
        for k in range(5 if ctx.quick else 40):
            n = rnd.randint(6, 10)
            rows = []
            for i in range(n):
                t = rnd.choice([(0, 1), (0, -1), (-1, 1), (1, 0), (0, 1)])
                rows.append({"s": rnd.randint(0, 1), "t": list(t), "m": None, "c": "ok"})
            if k % 2 == 1:
                # a sample whose single-agent wells sit only on the (masked) last plate, while its combinations are observed earlier
                rows[0] = {"s": 1, "t": [0, 1], "m": None, "c": "ok"}
                rows[1] = {"s": 0, "t": [0, 1], "m": None, "c": "ok"}
                for i in range(2, n - 2):
                    if rows[i]["s"] == 1 and -1 in rows[i]["t"]:
                        rows[i]["s"] = 0
                rows[n - 2] = {"s": 1, "t": [0, -1], "m": None, "c": "ok"}
                rows[n - 1] = {"s": 1, "t": [-1, 1], "m": None, "c": "ok"}
            # plates of two rows; about half observed
            nplates = (n + 1) // 2
            pobs = [rnd.random() < 0.55 for _ in range(nplates)]
            pobs[0] = True
            if all(pobs) or k % 2 == 1:
                pobs[-1] = False
            base = build(rows, rng)
            pn = np.array(["p%02d" % (i // 2) for i in range(n)], dtype=str)
            mask = np.array([pobs[i // 2] for i in range(n)])
            it = Interner()
            events = []
            params = {"dist_chunks": rnd.choice([1, 2, 3]), "score_chunks": rnd.choice([1, 2, 4]),
                      "batch": sorted(rnd.sample([p for p in range(nplates) if not pobs[p]], rnd.randint(0, max(0, sum(1 for p in pobs if not p) - 1))))}
            for variant, repl in enumerate([None, 0.0, 1.0, float("nan"), -3.0, "random"]):
                obs = base.observations.copy()
                if repl is not None:
                    obs[~mask] = rng.uniform(0, 1, size=int((~mask).sum())) if repl == "random" else repl
                scr = Screen(treatment_names=base.treatment_names, treatment_doses=base.treatment_doses, sample_names=base.sample_names, plate_names=pn,
                             observations=obs, observation_mask=mask.copy(), control_treatment_name="ctl", sample_mapping=SMAP, treatment_mapping=TMAP)
                events += pipeline_events(scr, "variant-%d" % variant, it, params, tmp)
                ctx.evaluations += 1
            traces.append({"g0": 0, "events": events})
    finally:
        _unpatch_mvn(saved)
        np.random.set_state(saved_state)
        shutil.rmtree(tmp, ignore_errors=True)
    bad = validate(ctx, "TraceFunctional", traces, decide=None, next_="TNext", init="TInit",
                   constants={"Keys": {0}, "Outs": {0}, "Globs": {0}, "CheckGlobal": False})
    for i, clause in bad[:3]:
        ctx.violation("two screens that differ only in masked values disagree: %s" % clause, {"kind": "noninterference", "index": i, "clause": clause})
    ctx.assumptions += ["training arrays compared with the documented transform in float32 tolerance 5e-4 of the magnitude",
                        "for the non-interference runs the legacy samplers' draws are pinned by seeding numpy's global generator and routing the multivariate-normal "
                        "draw through it (driver-side patch), so both runs see identical random numbers"]


def replay(ctx, rp):
    run(ctx)
