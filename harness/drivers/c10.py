"""C10 - posterior-sample collections persist exactly and keep chain-major order (ThetaStore.tla)."""
import hashlib, json, os, random, shutil, struct, sys, tempfile
import numpy as np

from batchie.core import ThetaHolder
from batchie.data import Screen
from batchie.models.sparse_combo import SparseDrugComboMCMCSample
from batchie.models.sparse_combo_interaction import SparseDrugComboInteractionMCMCSample
from harness.util import outcome, bits

NS, NT, D = 2, 3, 2


def _weird(rng, shape):
    """float64 values incl. denormals, values that do not survive float32, large and tiny magnitudes"""
    a = rng.normal(size=shape)
    flat = a.reshape(-1)
    specials = [5e-324, -5e-324, 1e-310, 1.0 + 2 ** -52, 0.1, 1e300, -1e-300, 16777217.0, 0.0, -0.0, np.pi]
    for i in range(flat.size):
        if rng.random() < 0.35:
            flat[i] = specials[int(rng.integers(len(specials)))]
    return a


def make_lut(rng, table):
    """the single-effect table is a property of the model, shared by every sample it exports"""
    if table == "empty":
        return {}
    lut = {(c, t): float(0.2 + 0.6 * rng.random()) for c in range(NS) for t in range(NT)}
    lut.update({(c, -1): 1.0 for c in range(NS)})
    return lut


def make_theta(kind, rng, table="full", lut=None, weird=True):
    if not weird:
        if kind == "combo":
            return SparseDrugComboMCMCSample(W=rng.normal(size=(NS, D)), W0=rng.normal(size=NS), V2=rng.normal(size=(NT, D)),
                                             V1=rng.normal(size=(NT, D)), V0=rng.normal(size=NT), alpha=float(rng.normal()), precision=float(abs(rng.normal()) + 0.1))
        return SparseDrugComboInteractionMCMCSample(W=0.3 * rng.normal(size=(NS, D)), V2=0.3 * rng.normal(size=(NT, D)),
                                                    precision=float(abs(rng.normal()) + 0.1), single_effect_lookup=lut)
    if kind == "combo":
        return SparseDrugComboMCMCSample(W=_weird(rng, (NS, D)), W0=_weird(rng, (NS,)), V2=_weird(rng, (NT, D)), V1=_weird(rng, (NT, D)),
                                         V0=_weird(rng, (NT,)), alpha=float(_weird(rng, (1,))[0]), precision=float(abs(rng.normal()) + 0.1 + 2 ** -40))
    if lut is None:
        lut = make_lut(rng, table)
    return SparseDrugComboInteractionMCMCSample(W=_weird(rng, (NS, D)), V2=_weird(rng, (NT, D)), precision=float(abs(rng.normal()) + 0.1), single_effect_lookup=lut)


def near_copy(th, rng, mode):
    """a sample that differs from `th` only slightly - a slowly mixing chain (one ulp / 1e-9 in a few entries) - or only in values far below
    any tolerance (all entries of one array tiny or denormal): still a different sample, to be stored and returned as such"""
    d = {k: (np.array(v, dtype=float, copy=True) if isinstance(v, np.ndarray) else v) for k, v in th.private_parameters_dict().items() if k != "single_effect_lookup"}
    arrs = sorted(k for k, v in d.items() if isinstance(v, np.ndarray) and v.size)
    k = arrs[int(rng.integers(len(arrs)))]
    if mode == "ulp":
        flat = d[k].reshape(-1)
        j = int(rng.integers(flat.size))
        flat[j] = np.nextafter(flat[j], np.inf)
    elif mode == "nano":
        d[k] = d[k] + 1e-9 * (1 + np.arange(d[k].size).reshape(d[k].shape))
    else:       # "tiny": the whole array far below 1e-8, different from the previous tiny one
        d[k] = (rng.random(d[k].shape) + 0.5) * (5e-324 if rng.random() < 0.5 else 1e-12)
    if isinstance(th, SparseDrugComboMCMCSample):
        return SparseDrugComboMCMCSample(W=d["W"], W0=d["W0"], V2=d["V2"], V1=d["V1"], V0=d["V0"], alpha=float(d["alpha"]), precision=float(d["precision"]))
    return SparseDrugComboInteractionMCMCSample(W=d["W"], V2=d["V2"], precision=float(d["precision"]), single_effect_lookup=th.single_effect_lookup)


def digest(th):
    h = hashlib.sha1(type(th).__name__.encode())
    d = dict(th.private_parameters_dict())
    lut = d.pop("single_effect_lookup", None)
    if lut is None and hasattr(th, "single_effect_lookup"):
        lut = th.single_effect_lookup
    for k in sorted(d):
        v = d[k]
        h.update(k.encode())
        if isinstance(v, np.ndarray):
            h.update(str(v.shape).encode() + str(v.dtype).encode() + np.ascontiguousarray(v).tobytes())
        else:
            h.update(struct.pack(">d", float(v)))
    if lut is not None:
        for key in sorted((int(a), int(b)) for a, b in lut.keys()):
            val = [v for (a, b), v in lut.items() if (int(a), int(b)) == key][0]
            h.update(repr(key).encode() + struct.pack(">d", float(val)))
    return h.hexdigest()


def test_screen():
    tn = np.array([["a", "b"], ["a", "ctl"], ["c", "b"], ["ctl", "c"]], dtype=str)
    td = np.array([[1.0, 1.0], [1.0, 0.0], [1.0, 1.0], [0.0, 1.0]])
    return Screen(treatment_names=tn, treatment_doses=td, sample_names=np.array(["s0", "s1", "s0", "s1"], dtype=str),
                  plate_names=np.array(["p"] * 4, dtype=str), observations=np.array([0.1, 0.2, 0.3, 0.4]), control_treatment_name="ctl")


class TWorld:
    def __init__(self, kind, tmp, seed, table="full"):
        self.kind, self.tmp, self.table = kind, tmp, table
        self.rng = np.random.default_rng(seed)
        self.lut = make_lut(self.rng, table)
        self.mem = {1: None, 2: None, 3: ThetaHolder(n_thetas=0)}
        self.tok = {}
        self.events, self.raised = [], None
        self.disk_proj = {1: {"cap": -1, "items": []}, 2: {"cap": -1, "items": []}}

    def proj(self, h):
        if h is None:
            return {"cap": 0, "items": []}
        return {"cap": int(h.n_thetas), "items": [self.tok.get(digest(t), 999) for t in h.thetas]}

    def fn(self, p):
        return os.path.join(self.tmp, "thetas_%d.h5" % p)

    def do(self, e):
        op, ev, refused = e["op"], dict(e), False
        if op == "new":
            self.mem[e["h"]] = ThetaHolder(n_thetas=e["cap"])
        elif op == "add":
            prev = self.mem[e["h"]].thetas[-1] if self.mem[e["h"]] is not None and len(self.mem[e["h"]].thetas) else None
            u = self.rng.random()
            if prev is not None and u < 0.45:
                th = near_copy(prev, self.rng, "ulp" if u < 0.15 else "nano" if u < 0.3 else "tiny")
                if digest(th) == digest(prev):
                    th = make_theta(self.kind, self.rng, self.table, lut=self.lut)
            else:
                th = make_theta(self.kind, self.rng, self.table, lut=self.lut)
            st, r = outcome(self.mem[e["h"]].add_theta, th)
            if st == "ok":
                self.tok[digest(th)] = e["h"] * 100 + len(self.events)
            elif r.startswith("ValueError"):
                refused = True
            else:
                self.raised = "add_theta: " + r
        elif op == "get":
            st, r = outcome(self.mem[e["h"]].get_theta, e["i"])
            if st != "ok":
                if r.startswith("ValueError"):
                    refused = True
                else:
                    self.raised = "get_theta(%d): %s" % (e["i"], r)
            elif digest(r) != digest(self.mem[e["h"]].thetas[e["i"]]):
                self.raised = "get_theta returned another sample"
        elif op == "save":
            st, r = outcome(self.mem[e["h"]].save_h5, self.fn(e["p"]))
            if st != "ok":
                if r.startswith("ValueError"):
                    refused = True
                else:
                    self.raised = "save_h5: " + r
            else:
                st, back = outcome(ThetaHolder.load_h5, self.fn(e["p"]))
                if st != "ok":
                    self.raised = "load_h5 of a just saved file: " + back
                else:
                    self.disk_proj[e["p"]] = self.proj(back)
                    # reloaded samples predict identically
                    if self.table == "full":
                        scr = test_screen()
                        for a, b in zip(self.mem[e["h"]].thetas, back.thetas):
                            st2, pb = outcome(b.predict_viability, scr)
                            if st2 != "ok":
                                self.raised = "a reloaded sample cannot predict: " + pb
                            elif a.predict_viability(scr).tobytes() != pb.tobytes():
                                self.raised = "a reloaded sample predicts differently"
        elif op == "load":
            st, r = outcome(ThetaHolder.load_h5, self.fn(e["p"]))
            if st != "ok":
                self.raised = "load_h5: " + r
            else:
                self.mem[e["h"]] = r
        elif op == "retable":
            # the shared single-agent table changes in place: every sample in memory becomes another value (a new identity token)
            objs = {id(t): t for h in self.mem.values() if h is not None for t in h.thetas}
            old = {i: self.tok.get(digest(t), 999) for i, t in objs.items()}
            key = sorted(self.lut.keys())[0]
            self.lut[key] = float(self.lut[key]) * 0.5 + 0.123
            self.lut[(NS + 7, NT + 7)] = 0.5 + 0.01 * len(self.events)          # and it grows
            for i, t in objs.items():
                self.tok[digest(t)] = old[i] + 1000 * (len(self.events) + 1)
        elif op == "concat":
            st, r = outcome(ThetaHolder.concat, [self.mem[e["a"]], self.mem[e["b"]]])
            if st != "ok":
                self.raised = "concat: " + r
            else:
                self.mem[3] = r
        if self.raised:
            return False
        ev["refused"] = refused
        ev["mem"] = [self.proj(self.mem[1]), self.proj(self.mem[2]), self.proj(self.mem[3])]
        ev["disk"] = [dict(self.disk_proj[1]), dict(self.disk_proj[2])]
        for k, dflt in (("h", 1), ("p", 1), ("a", 1), ("b", 1), ("i", 0), ("cap", 0)):
            ev.setdefault(k, dflt)
        self.events.append(ev)
        return True


def chains_round(kind, sizes, order, tmp, seed):
    """real: per-chain holders -> files -> evaluate_model CLI with the files in `order`"""
    rng = np.random.default_rng(seed)
    lut = make_lut(rng, "full")
    scr = test_screen()
    sfn = os.path.join(tmp, "screen.h5")
    scr.save_h5(sfn)
    tok, files, loaded = {}, [], []
    for c, n in enumerate(sizes, start=1):
        h = ThetaHolder(n_thetas=n)
        for s in range(1, n + 1):
            th = make_theta(kind, rng, lut=lut, weird=False)     # moderate values: every sample predicts differently
            h.add_theta(th)
            tok[digest(th)] = c * 100 + s
        fn = os.path.join(tmp, "chain_%d.h5" % c)
        st, r = outcome(h.save_h5, fn)
        if st != "ok":
            return {"raised": "save_h5: " + r}
        files.append(fn)
        st, back = outcome(ThetaHolder.load_h5, fn)
        if st != "ok":
            return {"raised": "load_h5: " + back}
        loaded.append({"cap": int(back.n_thetas), "items": [tok.get(digest(t), 999) for t in back.thetas]})
    from batchie.cli import evaluate_model
    from batchie.models.main import ModelEvaluation
    out = os.path.join(tmp, "eval.h5")
    old = sys.argv
    sys.argv = ["x", "--screen", sfn, "--thetas"] + [files[i - 1] for i in order] + ["--output", out]
    try:
        st, r = outcome(evaluate_model.main)
    finally:
        sys.argv = old
    if st != "ok":
        return {"raised": "evaluate_model CLI: " + r}
    me = ModelEvaluation.load_h5(out)
    # which sample predicts each column
    by_pred = {}
    for c, n in enumerate(sizes, start=1):
        h = ThetaHolder.load_h5(files[c - 1])
        for s, th in enumerate(h.thetas, start=1):
            st, pv = outcome(th.predict_viability, scr)
            if st != "ok":
                return {"raised": "a reloaded sample cannot predict: " + pv}
            by_pred[pv.tobytes()] = tok.get(digest(th), 999)
    cols = [by_pred.get(np.ascontiguousarray(me.predictions[:, j]).tobytes(), 998) for j in range(me.predictions.shape[1])]
    return {"kind": "chains", "sizes": list(sizes), "order": list(order), "loaded": loaded, "cols": cols,
            "chain_ids": [int(x) for x in me.chain_ids], "events": []}


def random_history(rnd, n):
    """longer than TLC's depth: holder operations in random order (Load only of a file that exists, Retable only before the first load)"""
    h = [{"op": "new", "h": 1, "cap": rnd.randint(0, 3)}, {"op": "new", "h": 2, "cap": rnd.randint(1, 3)}]
    caps, fill = {1: h[0]["cap"], 2: h[1]["cap"], 3: 0}, {1: 0, 2: 0, 3: 0}
    on_disk, loaded = set(), False
    while len(h) < n:
        op = rnd.choice(["add", "add", "add", "get", "save", "save", "load", "concat", "retable", "retable"])
        if op == "add":
            x = rnd.randint(1, 3)
            h.append({"op": "add", "h": x})
            fill[x] += 1 if fill[x] < caps[x] else 0
        elif op == "get":
            x = rnd.randint(1, 3)
            h.append({"op": "get", "h": x, "i": rnd.randint(-1, 3)})
        elif op == "save":
            x, p_ = rnd.randint(1, 3), rnd.randint(1, 2)
            h.append({"op": "save", "h": x, "p": p_})
            if fill[x] > 0:
                on_disk.add(p_)
                disk_fill = dict(getattr(random_history, "_df", {}))
        elif op == "load" and on_disk:
            p_, x = rnd.choice(sorted(on_disk)), rnd.randint(1, 2)
            h.append({"op": "load", "h": x, "p": p_})
            loaded = True
            caps[x], fill[x] = 9, 1          # (exact sizes do not matter for enabling)
        elif op == "concat":
            a, b = rnd.randint(1, 3), rnd.randint(1, 3)
            h.append({"op": "concat", "a": a, "b": b})
            caps[3], fill[3] = caps[a] + caps[b], fill[a] + fill[b]
        elif op == "retable" and not loaded:
            h.append({"op": "retable"})
    return h


OPS_INV = ["CapRespected", "NeverSavedEmpty", "LexDiffers", "ExportPath", "ExportChains"]


def run(ctx):
    from harness import tlc
    from harness.tracecheck import validate
    rnd = random.Random(ctx.seed)
    tmp = tempfile.mkdtemp(prefix="verif-c10-")
    try:
        depth = 5 if ctx.quick else 6
        c = {"Model": "ops", "MaxCap": 2, "MaxDepth": depth, "Sizes": {1}, "MaxChains": 1, "Export": True}
        r = ctx.tlc("ThetaStore", tlc.cfg(constants=c, invariants=OPS_INV, properties=["LoadIsSaved"], constraint="Bound",
                                          action_constraint="NoIdleRuns", view="View"),
                    note="holder operations, cap<=2, depth %d" % depth, coverage=True, workers=8)
        if r.violation:
            ctx.violation("design-level: ThetaStore(ops) violates %s" % r.violation, {"kind": "tlc", "tlc": r.violation_text[:3000]})
        ctx.need_coverage(r, ["NewHolder", "Add", "Get", "Save", "Load", "Concat", "Retable"])
        paths = [p["hist"] for p in r.by_tag("path") if len(p["hist"]) >= 3]
        paths.sort(key=lambda h: -len(h))
        budget = 250 if ctx.quick else 3000
        pick = paths[:budget // 3] + rnd.sample(paths, min(len(paths), budget - budget // 3))
        # histories beyond the explored depth (among them: save, shared table updated in place, save again, reload)
        pick += [[{"op": "new", "h": 1, "cap": 2}, {"op": "new", "h": 2, "cap": 2}, {"op": "add", "h": 1}, {"op": "save", "h": 1, "p": 1}, {"op": "retable"},
                  {"op": "save", "h": 1, "p": 2}, {"op": "add", "h": 1}, {"op": "retable"}, {"op": "save", "h": 1, "p": 1}, {"op": "load", "h": 2, "p": 1}]]
        pick += [random_history(rnd, rnd.randint(7, 12)) for _ in range(40 if ctx.quick else 600)]
        traces = []
        for i, h in enumerate(pick):
            # (only the interaction sample type has shared parameters that can change in place)
            kind = "inter" if any(e["op"] == "retable" for e in h) else ["combo", "inter"][i % 2]
            w = TWorld(kind, tmp, ctx.seed + i, table=["full", "full", "empty"][i % 3] if kind == "combo" or not any(e["op"] == "retable" for e in h) else "full")
            for e in h:
                if not w.do({k: v for k, v in e.items()}):
                    ctx.violation("holder history %s: %s" % ([x["op"] for x in h], w.raised), {"kind": "ops", "hist": h, "i": i})
                    break
            ctx.evaluations += 1
            if w.events:
                traces.append({"kind": "ops", "events": w.events, "sizes": [], "order": [], "loaded": [], "cols": [], "chain_ids": []})
        sizesets = {1, 2, 11, 12} if ctx.quick else {1, 2, 3, 10, 11, 12}
        c = {"Model": "chains", "MaxCap": 0, "MaxDepth": 3, "Sizes": sizesets, "MaxChains": 3, "Export": True}
        r = ctx.tlc("ThetaStore", tlc.cfg(constants=c, invariants=["ChainMajor", "ExportChains"], constraint="Bound"),
                    note="chain files of sizes %s, up to 3 chains, every file order" % sorted(sizesets), coverage=True, workers=1)
        if r.violation:
            ctx.violation("design-level: ThetaStore(chains) violates %s" % r.violation, {"kind": "tlc", "tlc": r.violation_text[:3000]})
        ctx.need_coverage(r, ["Evaluate"])
        cases = r.by_tag("chains")
        pick = cases if len(cases) <= (60 if ctx.quick else 600) else rnd.sample(cases, 60 if ctx.quick else 600)
        for i, e in enumerate(pick):
            t = chains_round(["combo", "combo", "inter"][i % 3], list(e["sizes"]), list(e["order"]), tmp, ctx.seed + i)
            ctx.evaluations += 1
            if "raised" in t:
                ctx.violation("chains %s order %s: %s" % (e["sizes"], e["order"], t["raised"]), {"kind": "chains", "case": e, "i": i})
            elif t["cols"] != list(e["cols"]) or t["chain_ids"] != list(e["chain_ids"]):
                ctx.violation("chain files of sizes %s in order %s: evaluation columns %s / chain ids %s, specification %s / %s" % (
                    e["sizes"], e["order"], t["cols"], t["chain_ids"], list(e["cols"]), list(e["chain_ids"])), {"kind": "chains", "case": e, "i": i})
                break
            else:
                traces.append(t)
        # the smallest studies: one cell line, one treatment, a one-entry single-agent table (arrays of ONE element are still arrays)
        for kind in ("combo", "inter"):
            g = np.random.default_rng(ctx.seed + 5)
            if kind == "combo":
                th = SparseDrugComboMCMCSample(W=g.normal(size=(1, 1)), W0=g.normal(size=1), V2=g.normal(size=(1, 1)), V1=g.normal(size=(1, 1)), V0=g.normal(size=1),
                                               alpha=0.25, precision=2.0)
            else:
                th = SparseDrugComboInteractionMCMCSample(W=g.normal(size=(1, 1)), V2=g.normal(size=(1, 1)), precision=2.0, single_effect_lookup={(0, 0): 0.5})
            hh = ThetaHolder(n_thetas=1)
            hh.add_theta(th)
            fn1 = os.path.join(tmp, "tiny_%s.h5" % kind)
            st, r_ = outcome(hh.save_h5, fn1)
            st2, back = outcome(ThetaHolder.load_h5, fn1) if st == "ok" else (st, r_)
            ctx.evaluations += 1
            if st2 != "ok" or len(back.thetas) != 1 or digest(back.thetas[0]) != digest(th):
                ctx.violation("a collection with one sample of a one-cell-line, one-treatment %s model does not reload unchanged: %s" % (
                    kind, back if st2 != "ok" else "parameter values / shapes differ"), {"kind": "tiny", "model": kind})
        ctx.sample({"chains": pick[0]})
        bad = validate(ctx, "TraceThetaStore", traces, decide=None, next_="TNext", init="TInit",
                       constants={"Model": "ops", "MaxCap": 99, "MaxDepth": 99, "Sizes": {1}, "MaxChains": 3, "Export": False})
        badset = {b[0] for b in bad if traces[b[0]]["kind"] == "ops"}
        opsok = [t for i, t in enumerate(traces) if t["kind"] == "ops" and i not in badset and any(e["mem"][0]["items"] for e in t["events"])]
        if opsok:
            from harness.tracecheck import selftest

            def corrupt(t):
                for e in t["events"]:
                    if e["mem"][0]["items"]:
                        e["mem"][0]["items"][0] += 1
                        return "identity token of one stored sample changed in the log"
            selftest(ctx, "TraceThetaStore", opsok[0], corrupt, decide=None, next_="TNext", init="TInit",
                     constants={"Model": "ops", "MaxCap": 99, "MaxDepth": 99, "Sizes": {1}, "MaxChains": 3, "Export": False})
        # chains traces need Model = "chains": validate them separately
        ch = [t for t in traces if t["kind"] == "chains"]
        bad = [b for b in bad if traces[b[0]]["kind"] == "ops"]
        for i, clause in bad[:3]:
            ctx.violation("real holder history rejected by TraceThetaStore at '%s': %s" % (clause, json.dumps([{k: v for k, v in e.items() if k not in ("mem", "disk")} for e in traces[i]["events"]])[:400]),
                          {"kind": "ops-trace", "trace": traces[i], "clause": clause})
        bad2 = validate(ctx, "TraceThetaStore", ch, decide=None, next_="TNext", init="TInit",
                        constants={"Model": "chains", "MaxCap": 99, "MaxDepth": 99, "Sizes": {1}, "MaxChains": 3, "Export": False})
        for i, clause in bad2[:3]:
            ctx.violation("real evaluation rejected by TraceThetaStore at '%s': %s" % (clause, json.dumps(ch[i])[:400]),
                          {"kind": "chains-trace", "trace": ch[i], "clause": clause})
    finally:
        shutil.rmtree(tmp, ignore_errors=True)
    ctx.exhaustive = True
    ctx.assumptions += ["sample identity = SHA-1 over the bytes of every parameter array, the bits of every scalar and the sorted single-effect table",
                        "evaluation is exercised on complete holders (what sampling produces)"]


def replay(ctx, rp):
    run(ctx)
