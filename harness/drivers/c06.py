"""C06 - every candidate plate is scored once; the minimum-score allowed plate is chosen (ScoreSelect.tla)."""
import json, os, random, shutil, sys, tempfile
import numpy as np

from batchie.core import Scorer, PlatePolicy
from batchie.data import Screen
from batchie.scoring.main import score_chunk, select_next_plate, ChunkedScoresHolder
from harness.util import outcome, Interner

# concrete score values of the three abstract levels (ascending): any floats will do, including -inf, near ties far below any
# printing precision, and values of very different magnitude
LEVELS = [{0: float("-inf"), 1: -1.5, 2: 3.0}, {0: 1e-9, 1: 2e-9, 2: 3e-9}, {0: 0.1, 1: 0.1 + 1e-12, 2: 0.1 + 2e-12},
          {0: -1e300, 1: -1.0 - 1e-15, 2: -1.0}]
LEVEL = dict(LEVELS[0])


class RecScorer(Scorer):
    def __init__(self, level_of):
        self.level_of, self.calls = level_of, []

    def score(self, plates, distance_matrix, samples, rng, progress_bar):
        self.calls.append({"plates": [int(k) for k in plates.keys()],
                           "rows": [[i + 1 for i, b in enumerate(v.selection_vector) if b] for v in plates.values()]})
        return {k: LEVEL[self.level_of[int(k)]] for k in plates.keys()}


class StubPolicy(PlatePolicy):
    def __init__(self, allowed):
        self.allowed, self.seen = set(allowed), None

    def filter_eligible_plates(self, batch_plates, unobserved_plates, rng):
        self.seen = [int(p.plate_id) for p in unobserved_plates]
        return [p for p in unobserved_plates if int(p.plate_id) in self.allowed]


class SFixture:
    """rows: (plate, sample, t1, t2)   treatments: 0 = control"""

    def __init__(self, rows, name):
        self.rows, self.name = rows, name

    def screen(self, observed):
        tn = np.array([["ctl" if t == 0 else "d%d" % t for t in r[2:4]] for r in self.rows], dtype=str)
        td = np.array([[0.0 if t == 0 else 1.0 for t in r[2:4]] for r in self.rows], dtype=float)
        sn = np.array(["s%d" % r[1] for r in self.rows], dtype=str)
        pn = np.array(["p%02d" % r[0] for r in self.rows], dtype=str)
        mask = np.array([r[0] in observed for r in self.rows], dtype=bool)
        return Screen(treatment_names=tn, treatment_doses=td, sample_names=sn, plate_names=pn,
                      observations=np.full(len(self.rows), 0.5), observation_mask=mask, control_treatment_name="ctl")

    def to_json(self):
        k = Interner()
        return json.dumps({"plate_of": [r[0] for r in self.rows], "klass": [k((r[1], r[2], r[3])) for r in self.rows]})


def _aux_files(scr, tmp):
    """a minimal posterior-sample file and a complete distance matrix, so that the calculate_scores command can be run"""
    from batchie.core import ThetaHolder
    from batchie.data import ExperimentSpace
    from batchie.distance_calculation import ChunkedDistanceMatrix
    from batchie.models.sparse_combo import SparseDrugComboMCMCSample
    sp = ExperimentSpace.from_screen(scr)
    h = ThetaHolder(n_thetas=3)
    g = np.random.default_rng(1)
    for _ in range(3):
        h.add_theta(SparseDrugComboMCMCSample(W=g.normal(size=(sp.n_unique_samples, 1)), W0=g.normal(size=sp.n_unique_samples), V2=g.normal(size=(sp.n_unique_treatments, 1)),
                                              V1=g.normal(size=(sp.n_unique_treatments, 1)), V0=g.normal(size=sp.n_unique_treatments), alpha=0.0, precision=1.0))
    tfn, dfn = os.path.join(tmp, "aux_thetas.h5"), os.path.join(tmp, "aux_dist.h5")
    if os.path.exists(tfn) and os.path.exists(dfn) and _aux_files.key == (sp.n_unique_samples, sp.n_unique_treatments):
        return tfn, dfn
    _aux_files.key = (sp.n_unique_samples, sp.n_unique_treatments)
    h.save_h5(tfn)
    dm = ChunkedDistanceMatrix(3)
    for i, j, v in ((1, 0, 0.5), (2, 0, 0.25), (2, 1, 0.75)):
        dm.add_value(i, j, v)
    dm.save(dfn)
    return tfn, dfn


_aux_files.key = None


def real_round(fx, observed, batch, nchunks, level_of, order, allowed, tmp, rnd, cli=False, cli_scores=False, procs=False):
    scr = fx.screen(set(observed))
    LEVEL.clear()
    LEVEL.update(rnd.choice(LEVELS))
    t = {"observed": sorted(observed), "batch": sorted(batch), "nchunks": nchunks, "size_mode": bool(cli_scores),
         "score": [level_of.get(p, 0) for p in range(max(r[0] for r in fx.rows) + 1)], "chunks": []}
    files = []
    if cli_scores:
        # the real calculate_scores command (plate ids on the command line), shipped SizeScorer
        from batchie.cli import calculate_scores as cs_mod
        sfn = os.path.join(tmp, "screen_for_scores.h5")
        scr.save_h5(sfn)
        tfn, dfn = _aux_files(scr, tmp)
        for i in range(nchunks):
            fn = os.path.join(tmp, "scores_%d.h5" % i)
            old = sys.argv
            sys.argv = ["x", "--data", sfn, "--thetas", tfn, "--distance-matrix", dfn, "--n-chunks", str(nchunks), "--chunk-index", str(i), "--scorer", "SizeScorer",
                        "--output", fn] + (["--batch-plate-ids"] + [str(b) for b in sorted(batch)] if batch else [])
            if procs:
                # every chunk in an interpreter of its own, as the workflow runs them (each with its own string-hash seed)
                import subprocess
                argv = list(sys.argv)
                sys.argv = old
                env = dict(os.environ, PYTHONHASHSEED=str(11 + 7 * i))
                p_ = subprocess.run([sys.executable, "-c", "import sys, logging; logging.disable(logging.CRITICAL); sys.argv = %r; "
                                     "from batchie.cli import calculate_scores as m; m.main()" % ([str(x) for x in argv],)],
                                    env=env, stdout=subprocess.PIPE, stderr=subprocess.PIPE, text=True, timeout=300)
                st, r = ("ok", None) if p_.returncode == 0 else ("raised", p_.stderr[-300:])
            else:
                try:
                    st, r = outcome(cs_mod.main)
                finally:
                    sys.argv = old
            if st != "ok":
                return {"raised": "calculate_scores CLI (chunk %d of %d): %s" % (i, nchunks, r)}
            hh = ChunkedScoresHolder.load_h5(fn)
            t["chunks"].append({"plates": [int(x) for x in hh.plate_ids], "rows": []})
            files.append(fn)
    for i in range(nchunks if not cli_scores else 0):
        sc = RecScorer(level_of)
        st, h = outcome(score_chunk, sc, None, scr, None, np.random.default_rng(0), False, nchunks, i, list(batch) if batch else None)
        if st != "ok":
            return {"raised": "score_chunk(chunk %d of %d): %s" % (i, nchunks, h)}
        call = sc.calls[0] if sc.calls else {"plates": [], "rows": []}
        t["chunks"].append(call)
        fn = os.path.join(tmp, "scores_%d.h5" % i)
        st, r = outcome(h.save_h5, fn)
        if st != "ok":
            return {"raised": "save_h5: " + r}
        files.append(fn)
    ordered = [files[i] for i in order]
    if cli:
        from batchie.cli import select_next_plate as cli_mod
        sfn, ofn = os.path.join(tmp, "screen.h5"), os.path.join(tmp, "selected_plate")
        scr.save_h5(sfn)
        old = sys.argv
        sys.argv = ["x", "--data", sfn, "--scores"] + ordered + ["--output", ofn] + (["--batch-plate-id"] + [str(b) for b in sorted(batch)] if batch else [])
        try:
            st, r = outcome(cli_mod.main)
        finally:
            sys.argv = old
        if st != "ok":
            return {"raised": "select_next_plate CLI: " + r}
        chosen = int(open(ofn).read().strip())
        allowed_real = [p for p in range(len(t["score"])) if p not in observed and p not in batch and any(r_[0] == p for r_ in fx.rows)]
    st, hs = outcome(lambda: [ChunkedScoresHolder.load_h5(f) for f in ordered])
    if st != "ok":
        return {"raised": "load_h5: " + hs}
    st, comb = outcome(ChunkedScoresHolder.concat, hs)
    if st != "ok":
        return {"raised": "concat: " + comb}
    inv = {v: k for k, v in LEVEL.items()}
    t["holder"] = [[int(p), (int(s) if cli_scores else inv.get(float(s), 9))] for p, s in zip(comb.plate_ids, comb.scores)]
    t["order_cat"] = [p for i in order for p in t["chunks"][i]["plates"]]
    if not cli:
        pol = StubPolicy(allowed) if allowed is not None else None
        st, r = outcome(select_next_plate, comb, scr, pol, list(batch) if batch else None, np.random.default_rng(1))
        if st != "ok":
            return {"raised": "select_next_plate: " + r}
        chosen = -1 if r is None else int(r.plate_id)
        allowed_real = sorted(allowed) if allowed is not None else [p for p in t["order_cat"]]
        if pol is not None and pol.seen is not None:
            t["policy_saw"] = pol.seen
    t["allowed"], t["chosen"] = sorted(allowed_real), chosen
    return t


FIXTURES = [
    SFixture([(0, 0, 1, 2), (0, 0, 1, 0), (1, 0, 1, 2), (1, 1, 2, 0), (2, 0, 0, 2), (2, 0, 1, 0), (3, 1, 2, 0), (3, 1, 3, 3)], "collisions-4-plates"),
    SFixture([(0, 0, 1, 0), (1, 0, 0, 1), (2, 0, 1, 0), (2, 0, 2, 2)], "three-small-plates"),
]


def run(ctx):
    from harness import tlc
    from harness.tracecheck import validate
    rnd = random.Random(ctx.seed)
    tmp = tempfile.mkdtemp(prefix="verif-c06-")
    try:
        for fx in FIXTURES:
            fj = fx.to_json()
            mc = 3 if ctx.quick else (4 if len(fx.rows) > 4 else 5)
            inv = ["ExactlyOnce", "HolderComplete", "SelectedOk", "ExportCase"]
            r = ctx.tlc("ScoreSelect", tlc.cfg(constants={"MaxChunks": mc, "ScoreLevels": {0, 1, 2}, "Export": False}, invariants=inv),
                        note="fixture %s, n_chunks<=%d, 3 score levels, every batch/order/allowed set" % (fx.name, mc),
                        files={"fixture.json": fj}, env={"FIXTURE_FILE": "fixture.json"}, coverage=True)
            if r.violation:
                ctx.violation("design-level: ScoreSelect violates %s" % r.violation, {"kind": "tlc", "tlc": r.violation_text[:3000]})
                continue
            ctx.need_coverage(r, ["Combine", "Select"])
            # (B) export a smaller scope and replay every explored round (sampled to the budget)
            r = ctx.tlc("ScoreSelect", tlc.cfg(constants={"MaxChunks": 2 if len(fx.rows) > 4 else 4, "ScoreLevels": {0, 1}, "Export": True}, invariants=inv),
                        note="export", files={"fixture.json": fj}, env={"FIXTURE_FILE": "fixture.json"}, workers=1, count=False)
            cases = r.by_tag("sel")
            budget = 450 if ctx.quick else 12000
            pick = cases if len(cases) <= budget else rnd.sample(cases, budget)
            traces_b = []
            for e in pick:
                cand = list(e["cand"])
                level_of = {p: s for p, s in zip(cand, e["scores"])}
                allowed = sorted(e["allowed"])
                t = real_round(fx, set(e["observed"]), set(e["batch"]), e["nchunks"], level_of, list(e["order"]),
                               None if set(allowed) == set(cand) and rnd.random() < 0.5 else allowed, tmp, rnd)
                ctx.evaluations += 1
                traces_b.append(t)
            ctx.sample({"spec_to_code": pick[len(pick) // 2]})
            # (C) random rounds incl. more chunks than plates, the CLI, no policy
            traces = traces_b            # explored rounds and random rounds go through one comparator (TraceScoreSelect)
            npl = max(r_[0] for r_ in fx.rows) + 1
            for _ in range(80 if ctx.quick else 1500):
                observed = {p for p in range(npl) if rnd.random() < 0.3}
                batch = {p for p in range(npl) if rnd.random() < 0.3}
                n = rnd.choice([1, 2, 3, 5, 9])
                level_of = {p: rnd.choice([0, 1, 1, 2]) for p in range(npl)}
                order = list(range(n))
                rnd.shuffle(order)
                cand = [p for p in range(npl) if p not in observed and p not in batch]
                mode = rnd.random()
                allowed = None if mode < 0.4 else sorted(rnd.sample(cand, rnd.randint(0, len(cand))))
                traces.append(real_round(fx, observed, batch, n, level_of, order, allowed, tmp, rnd, cli=(mode < 0.12), cli_scores=(0.12 <= mode < 0.3)))
            # the chunks of one round computed by separate interpreter processes
            for n in ((2,) if ctx.quick else (2, 3, 4, 2, 3)):
                observed = {p for p in range(npl) if rnd.random() < 0.2}
                cand = [p for p in range(npl) if p not in observed]
                order = list(range(n))
                rnd.shuffle(order)
                traces.append(real_round(fx, observed, set(), n, {p: 1 for p in range(npl)}, order, None, tmp, rnd, cli_scores=True, procs=True))
            ok = []
            for t in traces:
                if "raised" in t:
                    ctx.violation("fixture %s: real scoring round raised: %s" % (fx.name, t["raised"]), {"kind": "raw", "fixture": fx.name})
                else:
                    ok.append(t)
            consts = {"MaxChunks": 1, "ScoreLevels": {0}, "Export": False}
            bad = validate(ctx, "TraceScoreSelect", ok, decide="Decide", next_="TNext", init="TInit", chunk=6000,
                           constants=dict(consts, Strict=False), extra_files={"fixture.json": fj}, note=fx.name + ": what C06 states")
            before = ctx.traces
            drift = validate(ctx, "TraceScoreSelect", ok, decide="Decide", next_="TNext", init="TInit", chunk=6000,
                             constants=dict(consts, Strict=True), extra_files={"fixture.json": fj}, note=fx.name + ": chunk boundaries and holder order of ScoreSelect.tla")
            ctx.traces = before
            only = [d for d in drift if d[0] not in {b_[0] for b_ in bad}]
            ctx.extra["model_drift"] = ctx.extra.get("model_drift", 0) + len(only)
            if only:
                print("NOTE model-drift property=C06: %d round(s) satisfy what C06 states but differ from ScoreSelect.tla in the chunk boundaries or the "
                      "holder's entry order (first at '%s'); the transcription needs updating" % (len(only), only[0][1]))
            cand = [t for t in ok if t["holder"]]
            if not bad and cand:
                from harness.tracecheck import selftest

                def corrupt(t):
                    t["holder"][0][0] = 97
                    return "plate id of the first logged holder entry changed"
                selftest(ctx, "TraceScoreSelect", cand[0], corrupt, decide="Decide", next_="TNext", init="TInit",
                         constants=dict(consts, Strict=False), extra_files={"fixture.json": fj})
            for i, clause in bad[:3]:
                ctx.violation("fixture %s: real scoring round rejected by TraceScoreSelect at '%s': %s" % (fx.name, clause, json.dumps(ok[i])[:500]),
                              {"kind": "trace", "fixture": fx.name, "trace": ok[i], "clause": clause})
    finally:
        shutil.rmtree(tmp, ignore_errors=True)
    from harness.apalache import chunk_arith
    chunk_arith(ctx)            # np.array_split arithmetic for unbounded lengths / chunk counts (optional extra)
    if not ctx.quick:      # the composed loop (real script + real command-line programs incl. calculate_scores): this property's clause of it
        from harness.pipeline import run_e2e
        run_e2e(ctx, "C06", [(2, ctx.seed), (3, ctx.seed + 1)])
    ctx.exhaustive = True
    ctx.assumptions += ["the conditioning filter may keep any one experiment of a condition class", "argmin ties may resolve to any minimal plate"]


def replay(ctx, rp):
    ctx.violation("replay for C06 re-runs the whole check: use ./check C06", rp) if False else run(ctx)
