"""C20 - evaluation metrics and synergy values equal their definitions (Metrics.tla)."""
import json, os, random, shutil, tempfile
from itertools import combinations
import numpy as np

from batchie.core import ThetaHolder, Theta
from batchie.data import Screen, create_single_treatment_effect_map, create_single_treatment_effect_array
from batchie.models.main import ModelEvaluation, correlation_matrix, generate_full_combinatoric_space
from batchie.retrospective import calculate_mse
from batchie.synergy import calculate_synergy
from harness.terms import ev, close
from harness.util import outcome, bits

INV = ["EachPairOnce", "MapDomain", "SynergyOwnRow", "ExportCase"]


def _consts(model, export, use_cases=False, quick=True, rows=None, arities=None):
    return {"MaxE": 2 if quick else 3, "MaxT": 3 if quick else 4, "Chains": {0, 1} if quick else {0, 1, 2}, "MaxRows": rows or 3,
            "Arities": arities or {2}, "NS": 2, "NT": 2, "Export": export, "UseCases": use_cases, "Model": model}


class ViabTheta(Theta):
    def __init__(self, f):
        self.f = f

    def predict_viability(self, data):
        return np.array([self.f(int(s), tuple(int(x) for x in t)) for s, t in zip(data.sample_ids, data.treatment_ids)], dtype=float)


def check_eval(ctx, e, rng, tmp):
    E, lab = e["E"], list(e["lab"])
    # chain labels are identities: any integers will do (file indexes, seeds ...) - the grouping is what the definitions use
    f = [lambda k: k, lambda k: k + 126, lambda k: 300 * k + 7, lambda k: 2 ** 31 - 1 - k][int(rng.integers(4))]
    lab = [int(f(k)) for k in lab]
    T = len(lab)
    P = rng.normal(size=(E, T)) * rng.choice([1e-3, 1.0, 30.0])
    O = rng.normal(size=E)
    # sample names are free text (cell-line names with non-ASCII characters, names that differ only in such a character, empty)
    pool = [["s0", "s1"], ["HT-29", "ht-29 µ"], ["中", "中文"], ["é", "e"], ["", " "]][int(rng.integers(5))]
    names = np.array([pool[i % 2] for i in range(E)], dtype=str)
    st, me = outcome(ModelEvaluation, predictions=P, observations=O, chain_ids=np.array(lab, dtype=int), sample_names=names)
    if st != "ok":
        return "ModelEvaluation(...) raised " + me
    env = {"P": P, "O": O}
    for name, got in (("mse", outcome(me.mse)), ("msevar", outcome(me.mse_variance)), ("interchain", outcome(me.inter_chain_mse_variance))):
        want, mag = ev(e[name], env)
        if got[0] != "ok":
            return "%s raised %s" % (name, got[1])
        if not close(float(got[1]), want, mag, 1e-9):
            return "%s = %.17g, definition gives %.17g (E=%d, chain labels %s)" % (name, float(got[1]), want, E, lab)
    mp = me.mean_predictions
    for i, t in enumerate(e["meanpred"]):
        want, mag = ev(t, env)
        if not close(float(mp[i]), want, mag, 1e-9):
            return "mean_predictions[%d] = %.17g, definition %.17g" % (i, float(mp[i]), want)
    fn = os.path.join(tmp, "me.h5")
    st, r = outcome(me.save_h5, fn)
    st2, back = outcome(ModelEvaluation.load_h5, fn) if st == "ok" else (st, r)
    if st2 != "ok":
        return "evaluation file round trip raised " + str(back)
    if back.predictions.tobytes() != P.tobytes() or back.observations.tobytes() != O.tobytes() or list(back.chain_ids) != lab or list(back.sample_names) != list(names):
        return "evaluation file does not reload unchanged"
    return None


def check_effect(ctx, e, rng):
    rows = e["rows"]
    # ids are identities, not a dense range: a plate or a subset carries whatever ids its conditions have in the study (gaps included)
    gs, gt = [(1, 0), (2, 1), (1, 5)][int(rng.integers(3))], [(1, 0), (3, 2), (2, 0)][int(rng.integers(3))]
    fs = lambda x: gs[0] * x + gs[1]
    ft = lambda x: -1 if x == -1 else gt[0] * x + gt[1]
    sid = np.array([fs(r["s"]) for r in rows], dtype=int)
    tid = np.array([[ft(x) for x in r["t"]] for r in rows], dtype=int)
    obs = rng.uniform(0.05, 1.2, size=len(rows))
    for i in range(len(rows)):
        if rng.random() < 0.2:
            obs[i] = rng.choice([0.0, 1.0, 0.5])          # exact zeros / ones / repeated values are ordinary measurements
    env = {"obs": obs}
    st, m = outcome(create_single_treatment_effect_map, sid, tid, obs)
    if st != "ok":
        return "effect map raised " + m
    want = {(fs(x["s"]), ft(x["t"])): ev(x["v"], env) for x in e["map"]}
    got = {(int(a), int(b)): float(v) for (a, b), v in m.items()}
    if set(got) != set(want):
        return "effect map keys %s, definition %s" % (sorted(got), sorted(want))
    for k, (w, mag) in want.items():
        if not close(got[k], w, mag, 1e-9):
            return "effect%s = %.17g, definition %.17g" % (k, got[k], w)
    st, arr = outcome(create_single_treatment_effect_array, sid, tid, obs)
    if e["array_defined"]:
        if st != "ok":
            return "effect array raised " + arr
        for r in range(len(rows)):
            for a in range(tid.shape[1]):
                w, mag = ev(e["array"][r][a], env)
                if not close(float(arr[r, a]), w, mag, 1e-9):
                    return "effect array[%d,%d] = %.17g, definition %.17g" % (r, a, float(arr[r, a]), w)
    elif st == "ok":
        return "effect array returned although a (sample, treatment) has no single-agent measurement"
    if tid.shape[1] == 2 and all(sum(1 for x in r["t"] if x != -1) >= 1 for r in rows):
        for strict in (False, True):
            st, res = outcome(calculate_synergy, sid, tid, obs, strict)
            if strict and e["strict_refuses"]:
                if st == "ok":
                    return "strict synergy did not refuse a combination lacking a single-agent measurement"
                continue
            if st != "ok":
                return "synergy(strict=%s) raised %s" % (strict, res)
            s_ids, t_ids, syn = res
            if len(syn) != len(e["synergy"]):
                return "synergy returns %d rows, definition %d" % (len(syn), len(e["synergy"]))
            for i, w in enumerate(e["synergy"]):
                wv, mag = ev(w["v"], env)
                if int(s_ids[i]) != fs(w["s"]) or [int(x) for x in t_ids[i]] != [ft(x) for x in w["t"]] or not close(float(syn[i]), wv, mag, 1e-9):
                    return "synergy row %d = (%s, %s, %.17g), definition (%s, %s, %.17g)" % (i, s_ids[i], list(t_ids[i]), float(syn[i]), w["s"], list(w["t"]), wv)
    return None


def check_corr_and_mse(ctx, rng):
    """similarity matrix, combinatoric space and calculate_mse on a real screen with stub samples"""
    names = ["ctl", "a", "b", "c"]
    rows = [(0, 1, 2), (1, 2, 3), (2, 1, 0), (0, 3, 3), (1, 0, 1)]
    tn = np.array([[names[x] for x in r[1:]] for r in rows], dtype=str)
    td = np.array([[0.0 if x == 0 else float(x) for x in r[1:]] for r in rows])
    # a mapping batchie itself could have produced for a superset, with sample ids not in name order
    # (a 3-cycle: for an involution, looking a name up by position or by id gives the same answer)
    smap = (np.array(["s0", "s1", "s2"], dtype=str), np.array([[1, 2, 0], [2, 0, 1]][int(rng.integers(2))], dtype=int)) if rng.random() < 0.75 else None
    scr = Screen(treatment_names=tn, treatment_doses=td, sample_names=np.array(["s%d" % r[0] for r in rows], dtype=str),
                 plate_names=np.array(["p"] * len(rows), dtype=str), observations=rng.uniform(0.1, 0.9, size=len(rows)), control_treatment_name="ctl",
                 sample_mapping=smap)
    coef = rng.normal(size=(3, 3, 5))

    def mk(k):
        return ViabTheta(lambda s, t: float(1 / (1 + np.exp(-(coef[k, s, 0] + sum(coef[k, s, 1 + (x % 4)] for x in t if x >= 0))))))
    h = ThetaHolder(n_thetas=3)
    for k in range(3):
        h.add_theta(mk(k))
    # calculate_mse
    st, got = outcome(calculate_mse, scr, h)
    preds = np.mean([h.thetas[k].predict_viability(scr) for k in range(3)], axis=0)
    want = float(np.mean((preds - scr.observations) ** 2))
    if st != "ok" or abs(float(got) - want) > 1e-12 * max(1.0, abs(want)):
        return "calculate_mse = %s, definition %.17g" % (got, want)
    # combinatoric space: every unordered combination of the mapping's rows, ids verbatim from the screen's mapping
    for sid in scr.unique_sample_ids:
        st, sp = outcome(generate_full_combinatoric_space, int(sid), scr)
        if st != "ok":
            return "generate_full_combinatoric_space raised " + sp
        nmap = len(scr.treatment_mapping[0])
        if sp.size != nmap * (nmap - 1) // 2:
            return "combinatoric space has %d rows, expected C(%d,2)" % (sp.size, nmap)
        lut = {(str(a), float(b)): int(c) for a, b, c in zip(*scr.treatment_mapping)}
        for i in range(sp.size):
            for a in range(2):
                if int(sp.treatment_ids[i, a]) != lut[(str(sp.treatment_names[i, a]), float(sp.treatment_doses[i, a]))]:
                    return "combinatoric space is not encoded with the screen's own treatment ids"
        if set(int(x) for x in sp.sample_ids) != {int(sid)}:
            return "combinatoric space is not encoded with the screen's own sample id"
    # an evaluation of study size (thousands of held-out experiments): the metrics are still their definitions
    for E_ in (8197, 20000):
        T_ = 4
        Pb, Ob = rng.normal(size=(E_, T_)), rng.normal(size=E_)
        st, me = outcome(ModelEvaluation, predictions=Pb, observations=Ob, chain_ids=np.array([0, 0, 1, 1]), sample_names=np.array(["s%d" % (i % 3) for i in range(E_)], dtype=str))
        if st != "ok":
            return "ModelEvaluation of %d experiments raised %s" % (E_, me)
        err2 = (Pb - Ob[:, None]) ** 2          # Metrics.tla: Mse = mean over every (experiment, sample); MseVar = variance of the per-experiment means
        for name_, got_, want_ in (("mse", outcome(me.mse), float(err2.mean())), ("mse_variance", outcome(me.mse_variance), float(err2.mean(axis=1).var()))):
            if got_[0] != "ok" or abs(float(got_[1]) - want_) > 1e-9 * max(1.0, abs(want_)):
                return "%s of an evaluation with %d experiments = %s, definition %.17g" % (name_, E_, got_[1], want_)
    # a study-size mapping (more than ten thousand unordered combinations): still every combination, each once
    big = 150
    bmap = (np.array(["ctl"] + ["t%03d" % i for i in range(big - 1)], dtype=str), np.array([0.0] + [1.0 + (i % 3) for i in range(big - 1)]),
            np.array([-1] + list(range(big - 1)), dtype=int))
    bscr = Screen(treatment_names=np.array([["t000", "t001"], ["t002", "ctl"]], dtype=str), treatment_doses=np.array([[1.0, 2.0], [3.0, 0.0]]),
                  sample_names=np.array(["s0", "s1"], dtype=str), plate_names=np.array(["p", "p"], dtype=str), control_treatment_name="ctl", treatment_mapping=bmap)
    st, sp = outcome(generate_full_combinatoric_space, 0, bscr)
    if st != "ok":
        return "generate_full_combinatoric_space raised on a mapping of %d conditions: %s" % (big, sp)
    pairs_ = {tuple(sorted(int(x) for x in row)) for row in sp.treatment_ids}
    if sp.size != big * (big - 1) // 2 or len(pairs_) != sp.size:
        return "combinatoric space of a mapping of %d conditions has %d rows / %d distinct combinations, expected C(%d,2) = %d" % (
            big, sp.size, len(pairs_), big, big * (big - 1) // 2)
    st, cm = outcome(correlation_matrix, scr, h)
    if st != "ok":
        return "correlation_matrix raised " + cm
    C = cm.values
    P = []
    name_of = {int(i): str(nm) for nm, i in zip(*scr.sample_mapping)}
    for sid in scr.unique_sample_ids:
        # the definition, independently: every unordered pair of mapping rows, predicted for THIS sample id, ids from the screen's mapping
        pairs = list(combinations(range(len(scr.treatment_mapping[0])), 2))
        tids = [(int(scr.treatment_mapping[2][a]), int(scr.treatment_mapping[2][b])) for a, b in pairs]
        P.append(np.mean([[h.thetas[k].f(int(sid), t) for t in tids] for k in range(3)], axis=0))
        if list(cm.index)[list(scr.unique_sample_ids).index(sid)] != name_of[int(sid)]:
            return "similarity matrix row label is not the sample's name"
    P = np.stack(P)
    X = P - P.mean(axis=0, keepdims=True)
    for a in range(len(P)):
        for b in range(len(P)):
            want = float(np.dot(X[a], X[b]) / np.sqrt(np.dot(X[a], X[a]) * np.dot(X[b], X[b])))
            if abs(C[a, b] - want) > 1e-9:
                return "similarity[%d,%d] = %.17g, definition %.17g" % (a, b, C[a, b], want)
            if abs(C[a, b] - C[b, a]) > 1e-12 or (a == b and abs(C[a, a] - 1) > 1e-9):
                return "similarity matrix not symmetric with unit diagonal"
    return None


def run(ctx):
    from harness import tlc
    rnd = random.Random(ctx.seed)
    rng = np.random.default_rng(ctx.seed)
    tmp = tempfile.mkdtemp(prefix="verif-c20-")
    try:
        runs = [("eval", None, None), ("effect", 3, {2})] + ([] if ctx.quick else [("effect", 4, {2}), ("effect", 3, {3})])
        for model, nrows, ars in runs:
            r = ctx.tlc("Metrics", tlc.cfg(constants=_consts(model, True, quick=ctx.quick, rows=nrows, arities=ars), invariants=INV),
                        note="%s structures (rows<=%s, arity %s)" % (model, nrows, ars), env={"CASES_FILE": "none"}, workers=1, coverage=True)
            if r.violation:
                ctx.violation("design-level: Metrics violates %s" % r.violation, {"kind": "tlc", "tlc": r.violation_text[:3000]})
                continue
            cases = r.by_tag(model)
            budget = 1500 if ctx.quick else 20000
            pick = cases if len(cases) <= budget else rnd.sample(cases, budget)
            for e in pick:
                msg = check_eval(ctx, e, rng, tmp) if model == "eval" else check_effect(ctx, e, rng)
                ctx.evaluations += 1
                if msg:
                    ctx.violation(msg, {"kind": model, "case": {k: e[k] for k in (("E", "lab") if model == "eval" else ("rows",))}})
                    break
            ctx.traces += len(pick)
            ctx.sample({model: {k: pick[len(pick) // 2][k] for k in (("E", "lab", "mse") if model == "eval" else ("rows", "synergy"))}})
        # larger structures through the same module (cases file): unequal chain lengths, one chain, repeated single-agent rows, arity 3
        big = []
        for _ in range(25 if ctx.quick else 250):
            T = rnd.randint(1, 9)
            nchains = rnd.randint(1, 3)
            lab = sorted(rnd.randrange(nchains) for _ in range(T)) if rnd.random() < 0.7 else [rnd.randrange(nchains) for _ in range(T)]
            big.append({"E": rnd.randint(1, 6), "lab": lab, "rows": []})
        for _ in range(25 if ctx.quick else 250):
            ar = rnd.choice([2, 2, 3])
            rows = []
            for _ in range(rnd.randint(2, 9)):
                t = [rnd.randint(0, 1) for _ in range(ar)]
                if rnd.random() < 0.5:
                    keep = rnd.randrange(ar)
                    t = [t[i] if i == keep else -1 for i in range(ar)]
                rows.append({"s": rnd.randint(0, 1), "t": t})
            big.append({"E": 0, "lab": [], "rows": rows})
        r = ctx.tlc("Metrics", tlc.cfg(constants=_consts("eval", True, use_cases=True), invariants=INV), note="%d larger random structures" % len(big),
                    files={"cases.json": json.dumps(big)}, env={"CASES_FILE": "cases.json"}, workers=4)
        if r.violation:
            ctx.violation("design-level: Metrics violates %s" % r.violation, {"kind": "tlc", "tlc": r.violation_text[:3000]})
        for e in r.by_tag("eval"):
            msg = check_eval(ctx, e, rng, tmp)
            if msg:
                ctx.violation(msg, {"kind": "eval", "case": {"E": e["E"], "lab": e["lab"]}})
                break
        for e in r.by_tag("effect"):
            msg = check_effect(ctx, e, rng)
            if msg:
                ctx.violation(msg, {"kind": "effect", "case": {"rows": e["rows"]}})
                break
        ctx.traces += len(big)
        for _ in range(6 if ctx.quick else 30):
            msg = check_corr_and_mse(ctx, rng)
            if msg:
                ctx.violation(msg, {"kind": "corr"})
                break
    finally:
        shutil.rmtree(tmp, ignore_errors=True)
    ctx.exhaustive = True
    ctx.assumptions += ["the similarity matrix and calculate_mse are compared with their definition evaluated directly in the harness "
                        "(cosine of sample-centred average predictions over the full combination space); the combination space and its ids are checked structurally",
                        "float64 evaluation of terms, tolerance 1e-9 of the magnitude"]


def replay(ctx, rp):
    run(ctx)
