"""X05 (not one of the listed properties; DESIGN 11.6) - the full combinatoric space of a screen follows ComboSpace.tla.

A. TLC: ComboSpace.tla for tables of up to MaxT entries and arity 1..3: what itertools.combinations produces is every combination of distinct
   table entries exactly once (count = binomial coefficient).
C. code -> spec: the real generate_full_combinatoric_space on random real screens (arity 2 and 3, tables of 2..9 entries with and without the
   control, supplied tables with permuted ids, every sample of the screen requested in turn); per produced experiment the table positions of
   its treatments and its ids are validated by TraceComboSpace.tla (verdict: the set; drift: the order).  Refusal above 1e7 combinations is
   evaluated by the harness (a table of 4,500 entries)."""
import random
import numpy as np

from batchie.data import Screen
from batchie.models.main import generate_full_combinatoric_space
from harness import tlc, tracecheck
from harness.util import outcome

NAMES = ["alpha", "beta", "gamma", "delta", "eps"]
DOSES = [0.01, 0.5, 1.0, 10.0]


def _screen(rng, arity, control):
    n = rng.randrange(2, 7)
    pool = [(a, d) for a in NAMES[:rng.randrange(2, 6)] for d in DOSES[:rng.randrange(1, 4)]]
    rng.shuffle(pool)
    pool = pool[:rng.randrange(2, 8)]
    rows = [[rng.choice(pool) if (control is None or rng.random() < 0.8) else (control, 0.0) for _ in range(arity)] for _ in range(n)]
    names = np.array([[t[0] for t in r] for r in rows], dtype=str)
    doses = np.array([[t[1] for t in r] for r in rows], dtype=float)
    samples = np.array(["cell%d" % rng.randrange(3) for _ in range(n)], dtype=str)
    plates = np.array(sorted("pl%d" % rng.randrange(2) for _ in range(n)), dtype=str)
    mask = np.array([p == "pl0" for p in plates], dtype=bool)
    kw = {}
    if rng.random() < 0.5:           # a supplied table: ids in an order of its own (dense, the control - if present - at -1)
        ents = sorted({(a, d) for r in rows for (a, d) in r if a != control})
        ids = list(range(len(ents)))
        rng.shuffle(ids)
        tn, td, ti = [e[0] for e in ents], [e[1] for e in ents], ids
        if control is not None:
            tn, td, ti = tn + [control], td + [0.0], ti + [-1]
        kw["treatment_mapping"] = (np.array(tn, dtype=object), np.array(td, dtype=float), np.array(ti))
    return Screen(treatment_names=names, treatment_doses=doses, observations=np.where(mask, 0.5, 0.0), observation_mask=mask, sample_names=samples,
                  plate_names=plates, control_treatment_name=control if control is not None else "", **kw)


def _trace(scr, sid):
    tn, td, ti = scr.treatment_mapping
    pos = {(str(a), float(d)): k + 1 for k, (a, d) in enumerate(zip(tn, td))}
    o = outcome(lambda: generate_full_combinatoric_space(sid, scr))
    t = {"T": len(tn), "ar": int(scr.treatment_arity), "sample": int(sid), "table_ids": [int(x) for x in ti], "refused": o[0] == "exc", "rows": [], "ids": [],
         "samples": [], "n_observed": 0, "n_plates": 0, "same_mappings": True, "err": o[1] if o[0] == "exc" else ""}
    if o[0] == "exc":
        return t
    f = o[1]
    t["rows"] = [[pos.get((str(a), float(d)), 0) for a, d in zip(r, q)] for r, q in zip(f.treatment_names, f.treatment_doses)]
    t["ids"] = [[int(x) for x in r] for r in f.treatment_ids]
    t["samples"] = [int(x) for x in f.sample_ids]
    t["n_observed"] = int(np.sum(f.observation_mask))
    t["n_plates"] = len(set(f.plate_names.tolist()))
    same = lambda a, b: len(a) == len(b) and all(len(x) == len(y) and all(str(u) == str(v) for u, v in zip(x, y)) for x, y in zip(a, b))
    t["same_mappings"] = bool(same(f.treatment_mapping, scr.treatment_mapping) and same(f.sample_mapping, scr.sample_mapping))
    return t


def run(ctx):
    rng = random.Random(ctx.seed)
    r = ctx.tlc("ComboSpace", tlc.cfg(spec="Spec", constants={"MaxT": 6 if ctx.quick else 8, "MaxA": 3}, invariants=["InvDistinct", "InvEveryOnce", "InvCount"]),
                note="every table size and arity", coverage=True, allow_violation=False)
    ctx.need_coverage(r, ["Gen"])
    ctx.exhaustive = True
    traces = []
    for k in range(120 if ctx.quick else 1500):
        scr = _screen(rng, 2 if k % 3 else 3, rng.choice([None, "control", "DMSO"]))
        if len(scr.treatment_mapping[0]) > 9:
            continue
        for sid in scr.unique_sample_ids:
            traces.append(_trace(scr, sid))
    ctx.sample({k: traces[3][k] for k in ("T", "ar", "sample", "rows")})
    kw = dict(init="TInit", next_="TNext", constants={"MaxT": 9, "MaxA": 3, "Strict": False})
    bad = tracecheck.validate(ctx, "TraceComboSpace", traces, note="real calls (verdict: the set of combinations)", **kw)
    for i, clause in bad[:10]:
        t = traces[i]
        ctx.violation("generate_full_combinatoric_space(sample %d) on a table of %d entries, arity %d: rejected by TraceComboSpace at clause '%s' (%d rows%s)" % (
            t["sample"], t["T"], t["ar"], clause, len(t["rows"]), ", raised " + t["err"] if t["refused"] else ""), {"kind": "combo", "trace": t, "clause": clause})
    if not bad:
        drift = tracecheck.validate(ctx, "TraceComboSpace", traces[:200], note="drift pass (row order)", init="TInit", next_="TNext", constants={"MaxT": 9, "MaxA": 3, "Strict": True})
        ctx.traces -= min(200, len(traces)) - len(drift)
        if drift:
            print("NOTE model-drift property=X05 %d of %d calls list the combinations in another order than the table's" % (len(drift), min(200, len(traces))))
        good = next(t for t in traces if len(t["rows"]) >= 3)

        def c_dup(t):
            t["rows"][1] = list(t["rows"][0])
            t["ids"][1] = list(t["ids"][0])
            return "one combination listed twice (another one missing)"

        def c_id(t):
            t["ids"][0][0] += 1
            return "one treatment id changed"
        for c_ in (c_dup, c_id):
            tracecheck.selftest(ctx, "TraceComboSpace", good, c_, **kw)
    # refusal above 1e7 combinations
    n = 4500
    big = Screen(treatment_names=np.array([["t%04d" % i, "t%04d" % ((i + 1) % n)] for i in range(n)], dtype=str), treatment_doses=np.ones((n, 2)),
                 sample_names=np.array(["c"] * n, dtype=str), plate_names=np.array(["p"] * n, dtype=str))
    o = outcome(lambda: generate_full_combinatoric_space(0, big))
    ctx.evaluations += 1
    if o[0] != "exc" or "ValueError" not in str(o[1]):
        ctx.violation("generate_full_combinatoric_space did not refuse a space of %d combinations (limit 1e7)" % (n * (n - 1) // 2), {"kind": "refusal", "n": n})
    ctx.extra["calls"] = len(traces)
    ctx.assumptions += ["tables of at most 9 entries in the validated traces (TLC enumerates the subsets); the 1e7 limit is probed at one size"]


def replay(ctx, rp):
    run(ctx)
