"""C05 - a plate's DBAL score depends on that plate alone and equals the direct estimator (DBAL.tla)."""
import json, math, random
import numpy as np

from batchie.core import ThetaHolder, Theta
from batchie.data import Screen
from batchie.scoring import gaussian_dbal as G
from harness.terms import ev, close
from harness.util import outcome


class ArrTheta(Theta):
    """posterior sample whose predictions for row r of the screen are mean[r], var[r]"""

    def __init__(self, mean, var):
        self.mean, self.var = mean, var

    def predict_conditional_mean(self, data):
        return self.mean[data.selection_vector].copy() if hasattr(data, "selection_vector") else self.mean.copy()

    def predict_conditional_variance(self, data):
        return self.var[data.selection_vector].copy() if hasattr(data, "selection_vector") else self.var.copy()

    def predict_viability(self, data):
        return self.predict_conditional_mean(data)


class Dense:
    def __init__(self, d):
        self.d = d

    def to_dense(self):
        return self.d.copy()


def draw(rng, n, sizes, wide=False, homo=False):
    means = [rng.uniform(-10, 10, size=(n, e)) * (rng.choice([1e-2, 1.0]) if not wide else 1.0) for e in sizes]
    for mm in means:
        mm[rng.random(size=mm.shape) < 0.15] = 0.0          # a predicted mean of exactly 0 is an ordinary value
    if wide:
        levels = [1e-3, 1e3]
        vars_ = [np.full((n, e), levels[i % 2]) * np.exp(rng.normal(size=(n, 1)) * 0.1) for i, e in enumerate(sizes)]
    else:
        vars_ = [np.exp(rng.uniform(math.log(1e-3), math.log(1e3), size=(n, 1 if homo else e))) * np.ones((n, e)) for e in sizes]
    # distances on any scale (a matrix of tiny distances is as good as any), zero distances, three coincident samples
    d = np.abs(rng.normal(size=(n, n))) * rng.choice([1e-15, 1e-10, 1e-3, 1.0, 50.0])
    d = d + d.T
    np.fill_diagonal(d, 0.0)
    u = rng.random()
    if u < 0.3 and n > 3:
        i, j = 1, 0
        d[i, j] = d[j, i] = 0.0
    elif u < 0.5 and n > 3:
        for i, j in ((0, 1), (0, 2), (1, 2)):
            d[i, j] = d[j, i] = 0.0
    return means, vars_, d


def pad(arrs, value):
    m = max(a.shape[1] for a in arrs)
    out = np.full((len(arrs), arrs[0].shape[0], m), value, dtype=float)
    for i, a in enumerate(arrs):
        out[i, :, :a.shape[1]] = a
    return out


def real_matrix(d):
    """the distances as the real chunked matrix object the scorer is handed in production"""
    from batchie.distance_calculation import ChunkedDistanceMatrix
    n = d.shape[0]
    m = ChunkedDistanceMatrix(n)
    for i in range(n):
        for j in range(i):
            m.add_value(i, j, float(d[i, j]))
    return m


SCORERS = {}          # one scorer object per configuration for the whole run: nothing may be remembered between score() calls


def scorer_entry(n, sizes, means, vars_, d, max_chunk, order, rng, max_triples=100000):
    """GaussianDBALScorer.score through real plate views and stub samples"""
    rows_pl = [p for p, e in enumerate(sizes) for _ in range(e)]
    N = len(rows_pl)
    scr = Screen(treatment_names=np.array([["a", "b"]] * N, dtype=str), treatment_doses=np.ones((N, 2)), sample_names=np.array(["s"] * N, dtype=str),
                 plate_names=np.array(["p%02d" % p for p in rows_pl], dtype=str))
    h = ThetaHolder(n_thetas=n)
    for th in range(n):
        h.add_theta(ArrTheta(np.concatenate([means[p][th] for p in range(len(sizes))]), np.concatenate([vars_[p][th] for p in range(len(sizes))])))
    plates = {p: scr.get_plate(p) for p in order}
    scorer = SCORERS.setdefault((max_chunk, max_triples), G.GaussianDBALScorer(max_chunk=max_chunk, max_triples=max_triples))
    st, r = outcome(scorer.score, plates, real_matrix(d), h, rng, False)
    return st, ([float(r[p]) for p in range(len(sizes))] if st == "ok" and set(r.keys()) == set(range(len(sizes))) else r)


def run(ctx):
    from harness import tlc
    rnd = random.Random(ctx.seed)
    rng = np.random.default_rng(ctx.seed)
    maxn, maxe = (5, 3) if ctx.quick else (6, 4)
    c = {"MaxN": maxn, "MaxE": maxe, "Export": False, "UseCases": False}
    inv = ["AllTriplesOnce", "OwnCellsOnly", "EveryCellUsed", "ExportCase"]
    r = ctx.tlc("DBAL", tlc.cfg(constants=c, invariants=inv), note="structural clauses, n<=%d samples, <=%d experiments" % (maxn, maxe),
                env={"CASES_FILE": "none"}, coverage=True)
    if r.violation:
        ctx.violation("design-level: DBAL violates %s" % r.violation, {"kind": "tlc", "tlc": r.violation_text[:3000]})
    ctx.exhaustive = True
    # structures to replay: (n, plate sizes, co-scoring order, max_chunk) - small exhaustive-ish + larger random + wide-magnitude
    structs = []
    for n in (3, 4, 5):
        for sizes in ([1], [3], [1, 3], [2, 2, 1], [3, 1, 2]):
            structs.append((n, sizes, False))
    for _ in range(6 if ctx.quick else 60):
        n = rnd.randint(3, 7 if ctx.quick else 9)
        structs.append((n, [rnd.randint(1, 6) for _ in range(rnd.randint(1, 5))], False))
    structs += [(3, [60, 60], True), (3, [1, 60, 40], True), (4, [50, 1, 50], True)]
    structs += [(33, [1, 2], False)]           # C(33,3) = 5456 triples: more than the default budget of 5000, all enumerated when the budget says so
    need = sorted({(n, e) for n, sizes, _ in structs for e in sizes})
    r = ctx.tlc("DBAL", tlc.cfg(constants={"MaxN": 3, "MaxE": 1, "Export": True, "UseCases": True}, invariants=["AllTriplesOnce", "ExportCase"]),
                note="terms for %d (n, plate size) pairs" % len(need), files={"cases.json": json.dumps([{"n": n, "e": e} for n, e in need])},
                env={"CASES_FILE": "cases.json"}, workers=4, heap="12g")
    if r.violation:
        ctx.violation("design-level: DBAL violates %s" % r.violation, {"kind": "tlc", "tlc": r.violation_text[:3000]})
    terms = {(t["n"], t["e"]): t["term"] for t in r.by_tag("dbal")}
    if len(terms) != len(need):
        raise tlc.TLCError("term export incomplete: %d of %d" % (len(terms), len(need)))
    nbad = 0
    for n, sizes, wide in structs:
        for rep in range(1 if (ctx.quick or wide) else 3):
            homo = rep == 1
            means, vars_, d = draw(rng, n, sizes, wide=wide, homo=homo)
            off = float(rng.choice([1e5, 1e6])) if (not wide and rng.random() < 0.35) else 0.0
            if off:
                # moderate variances for the offset cases, so that the conditioning of the input is known (see below)
                vars_ = [np.exp(rng.uniform(math.log(0.5), math.log(2.0), size=(vv.shape[0], 1 if homo else vv.shape[1]))) * np.ones(vv.shape) for vv in vars_]
            want = []
            for p, e in enumerate(sizes):
                v, mag = ev(terms[(n, e)], {"m": means[p], "v": vars_[p], "d": d})
                want.append((v, mag))
            if off:
                # the estimator is a function of DIFFERENCES of predicted means: with a common offset on all of them the score is the one
                # computed above.  Tolerance: that of the input (differences known to off * 2^-52); the unchanged kernel stays within
                # off * 1e-16 of it on such inputs, the bound used is off * 1e-13 relative
                means = [mm + off for mm in means]
                want = [(v, off * 1e-4 * (1.0 + abs(v))) for v, mag in want]
            P = len(sizes)
            entries = {}
            gen = np.random.default_rng(1)
            st, s = outcome(G.dbal_fast_gaussian_scoring_heteroscedastic, means, vars_, d, gen, 10 ** 6)
            entries["heteroscedastic"] = (st, s)
            pm, pv = pad(means, 0.0), pad(vars_, np.nan)
            st, s = outcome(G.dbal_fast_gauss_scoring_vectorized, pm, pv, d, gen, 10 ** 6)
            entries["vectorized"] = (st, s)
            d2 = d * 1.0
            st, s = outcome(G.dbal_fast_gauss_scoring_vectorized, pm, pv, d2, gen, 10 ** 6)      # same padded arrays, second call
            entries["vectorized-second-call-same-arrays"] = (st, s)
            if homo or wide or all(np.allclose(vv, vv[:, :1]) for vv in vars_):
                hv = np.stack([vv[:, 0] for vv in vars_])
                st, s = outcome(G.dbal_fast_gaussian_scoring_homoscedastic, means, hv, d, gen, 10 ** 6)
                entries["homoscedastic"] = (st, s)
            # the scorer with different co-scoring orders and internal batch sizes
            for k in range(2):
                order = list(range(P))
                rnd.shuffle(order)
                mc = rnd.choice([1, 2, 3, 50])
                mt = 100000 if n < 30 else 6000
                entries["scorer(max_chunk=%d,max_triples=%d,order=%s)" % (mc, mt, order)] = scorer_entry(n, sizes, means, vars_, d, mc, order, gen, max_triples=mt)
            # a budget that covers the triples exactly: still all of them, each once
            from math import comb as _comb
            tot = _comb(n, 3)
            st, s = outcome(G.dbal_fast_gauss_scoring_vectorized, pm, pv, d, gen, tot)
            entries["vectorized(max_combos=C(n,3))"] = (st, s)
            st, s = outcome(G.dbal_fast_gaussian_scoring_heteroscedastic, means, vars_, d, gen, tot)
            entries["heteroscedastic(max_combos=C(n,3))"] = (st, s)
            entries["scorer(max_chunk=2,max_triples=C(n,3))"] = scorer_entry(n, sizes, means, vars_, d, 2, list(range(P)), gen, max_triples=tot)
            # each plate alone
            for p in range(P):
                st, s = outcome(G.dbal_fast_gaussian_scoring_heteroscedastic, [means[p]], [vars_[p]], d, gen, 10 ** 6)
                entries["alone-%d" % p] = (st, [s[0] if i == p else None for i in range(P)] if st == "ok" else s)
            ctx.evaluations += len(entries)
            anypos = bool((d > 0).any())
            for name, (st, s) in entries.items():
                msg = None
                if st != "ok":
                    msg = "%s raised %s" % (name, s)
                else:
                    for p in range(P):
                        if s[p] is None:
                            continue
                        g = float(s[p])
                        w, mag = want[p]
                        if not close(g, w, mag, 1e-9):
                            msg = "%s: plate %d of sizes %s (n=%d): score %.17g, direct estimator %.17g" % (name, p, sizes, n, g, w)
                            break
                        if anypos and not math.isfinite(g) and math.isfinite(w):
                            msg = "%s: plate %d score not finite" % (name, p)
                            break
                if msg:
                    nbad += 1
                    if nbad <= 4:
                        ctx.violation(msg, {"kind": "struct", "n": n, "sizes": sizes, "wide": wide, "entry": name, "seed": ctx.seed})
                    break
    # production scale (the default sub-group of 50 plates of 384 wells): a plate's score is still the score it gets when scored alone
    # (which the small structures above tie to the direct estimator), whatever the implementation does to bound its temporaries
    for n_, P_, E_ in ([(20, 50, 384)] if ctx.quick else [(20, 50, 384), (12, 103, 1536), (32, 50, 96)]):
        g = np.random.default_rng(ctx.seed + n_)
        pm = g.uniform(-2, 2, size=(P_, n_, E_))
        pv = np.exp(g.uniform(-1, 1, size=(P_, n_, E_)))
        dm = np.abs(g.normal(size=(n_, n_)))
        dm = dm + dm.T
        np.fill_diagonal(dm, 0.0)
        st, together = outcome(G.dbal_fast_gauss_scoring_vectorized, pm.copy(), pv.copy(), dm.copy(), np.random.default_rng(1), 10 ** 6)
        ctx.evaluations += 1
        if st != "ok":
            ctx.violation("vectorized scoring of %d plates x %d wells (n=%d) raised %s" % (P_, E_, n_, together), {"kind": "scale", "n": n_, "P": P_, "E": E_})
            continue
        for p_ in sorted(set([0, P_ // 2, P_ - 1])):
            st, alone = outcome(G.dbal_fast_gauss_scoring_vectorized, pm[p_:p_ + 1].copy(), pv[p_:p_ + 1].copy(), dm.copy(), np.random.default_rng(2), 10 ** 6)
            if st != "ok" or not close(float(together[p_]), float(alone[0]), abs(float(alone[0])) + 1.0, 1e-9):
                ctx.violation("plate %d of %d (x %d wells, n=%d): score %.17g when scored with the others, %s when scored alone" % (
                    p_, P_, E_, n_, float(together[p_]), alone if st != "ok" else "%.17g" % float(alone[0])), {"kind": "scale", "n": n_, "P": P_, "E": E_})
                break
    ctx.traces += len(structs)
    ctx.sample({"structure": {"n": structs[3][0], "plate_sizes": structs[3][1]}, "term_nodes": len(json.dumps(terms[(structs[3][0], structs[3][1][0])]))})
    ctx.extra["structures_replayed"] = len(structs)
    ctx.assumptions += ["triple budget covers all triples (max_combos >= C(n,3))", "float64 evaluation of the direct term; tolerance 1e-9 of its magnitude (log domain)"]


def replay(ctx, rp):
    run(ctx)
