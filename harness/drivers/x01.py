"""X01 (not one of the listed properties; DESIGN 11.6) - the minibatch iterator of the grid model follows BatchIter.tla.

A. TLC: BatchIter.tla exhaustively for n <= 5 (6 in the thorough tier), batch size <= 3, epochs <= 2, min_steps <= 2, max_steps in {None, 0..4},
   two passes over the same object; invariants, action properties, termination of every pass; vacuity guard on the three actions.
C. code -> spec: one real BatchIterator per parameter combination of that grid (x shuffle x combo_smooth) plus random larger ones, driven
   through one full pass, a partial pass and a second full pass; every call is an event validated by TraceBatchIter.tla.
Binding self-test: one row of one delivered batch changed / one `next` event dropped -> must be rejected."""
import itertools, random
import numpy as np
import torch

from batchie.models.grid_helper import BatchIterator
from harness import tlc, tracecheck
from harness.util import outcome

NONE = 999


def _event(it, op, n, out=None, combo=False, ngrid=3):
    ev = {"op": op, "step": int(it.step), "index": int(it.index), "epoch": int(it.curr_epoch), "jpe": bool(it.just_passed_epoch()),
          "ordering": [int(x) + 1 for x in it.ordering.tolist()], "batch": [], "batch2": [], "combo_ok": True, "n_out": 0}
    if out is not None:
        ev["n_out"] = len(out)
        ev["batch"] = [int(x) + 1 for x in out[0].tolist()]
        ev["batch2"] = [int(x) // 10 + 1 for x in out[1].tolist()] if len(out) > 1 else []
        if combo:
            c = out[-1]
            rows = torch.tensor([b - 1 for b in ev["batch"]], dtype=torch.long)
            ev["combo_ok"] = bool(len(out) == 3 and tuple(c.shape) == (len(ev["batch"]), 2) and c.dtype == torch.long
                                  and torch.equal(c, it.conc_combo_idxs[rows]) and (c.numel() == 0 or (int(c.min()) >= 0 and int(c.max()) < ngrid ** 2))
                                  and tuple(it.conc_combo_idxs.shape) == (n, 2))
    return ev


def trace_of(n, bs, epochs, mins, maxs, shuffle, combo, passes, seed, ngrid=3):
    torch.manual_seed(seed)
    np.random.seed(seed)
    a, b = torch.arange(n), 10 * torch.arange(n)
    kw = dict(batch_size=bs, n_epochs=epochs, n_grid=ngrid, min_steps=mins, shuffle=shuffle, combo_smooth=combo)
    if maxs != NONE:
        kw["max_steps"] = maxs
    it = BatchIterator(a, b, **kw)
    t = {"par": {"n": n, "bs": bs, "epochs": epochs, "mins": mins, "maxs": maxs}, "shuffle": shuffle, "combo": combo, "len": int(len(it)),
         "events": []}
    for limit in passes:                      # None = until StopIteration; k = abandon the pass after k batches
        iter(it)
        t["events"].append(_event(it, "iter", n))
        k = 0
        while limit is None or k < limit:
            o = outcome(lambda: next(it))
            if o[0] == "exc":
                if not str(o[1]).startswith("StopIteration"):
                    raise RuntimeError("BatchIterator raised %s" % (o[1],))
                t["events"].append(_event(it, "stop", n))
                break
            t["events"].append(_event(it, "next", n, o[1], combo, ngrid))
            k += 1
            if k > 500:
                raise RuntimeError("iterator did not stop")
    return t


CONSTS = {"MaxN": 5, "MaxBS": 3, "MaxEpochs": 2, "MaxMin": 2, "MaxMax": 4, "MaxIters": 9}


def run(ctx):
    rng = random.Random(ctx.seed)
    maxn = 5 if ctx.quick else 6
    c = dict(CONSTS, MaxN=maxn, MaxIters=2)
    r = ctx.tlc("BatchIter", tlc.cfg(spec="Spec", constants=c, invariants=["TypeOK", "StepsWithinTotal", "StopOnlyAtTotal", "EpochIsAPrefix",
                                                                             "JustPassedMeansComplete", "BatchSizes", "ClosedForm", "EpochCountsWraps"],
                                     properties=["PassEnds", "StepByOne", "EpochMonotone"]),
                note="exhaustive: every parameter combination, two passes", coverage=True, allow_violation=False)
    ctx.need_coverage(r, ["Iter", "NextBatch", "Stop"])
    ctx.exhaustive = True
    traces = []
    grid = list(itertools.product(range(0, maxn + 1), range(1, 4), range(0, 3), range(0, 3), [NONE, 0, 1, 2, 3, 4]))
    for k, (n, bs, ep, mi, ma) in enumerate(grid):
        shuffle, combo = bool(k % 2), bool((k // 2) % 2)
        passes = [None, rng.randrange(0, 4), None] if k % 3 == 0 else [None]
        traces.append(trace_of(n, bs, ep, mi, ma, shuffle, combo, passes, ctx.seed + k))
    for k in range(60 if ctx.quick else 600):
        n, bs = rng.randrange(0, 41), rng.randrange(1, 17)
        traces.append(trace_of(n, bs, rng.randrange(0, 4), rng.choice([0, 1, 1, 5, 30]), rng.choice([NONE, NONE, 0, 3, 20, 100]),
                               rng.random() < 0.5, rng.random() < 0.5, rng.choice([[None], [None, None], [rng.randrange(0, 6), None]]),
                               ctx.seed + 5000 + k, ngrid=rng.choice([2, 3, 7])))
    ctx.sample({"par": traces[7]["par"], "events": len(traces[7]["events"])})
    kw = dict(decide=None, init="TInit", next_="TNext", constants=CONSTS, constraint="TInv")
    bad = tracecheck.validate(ctx, "TraceBatchIter", traces, note="real iterators", **kw)
    for i, clause in bad[:10]:
        t = traces[i]
        ctx.violation("BatchIterator%s (shuffle=%s, combo_smooth=%s): real call sequence rejected by TraceBatchIter at clause '%s'" % (
            t["par"], t["shuffle"], t["combo"], clause), {"kind": "trace", "trace": t, "clause": clause})
    if not bad:
        good = next(t for t in traces if sum(1 for e in t["events"] if e["op"] == "next" and e["batch"]) >= 2 and t["par"]["n"] >= 3)

        def c_row(t):
            e = [e for e in t["events"] if e["op"] == "next" and e["batch"]][1]
            e["batch"][0] = e["batch"][0] % t["par"]["n"] + 1
            e["batch2"] = list(e["batch"])
            return "one row of a delivered batch replaced by another row (both tensors alike)"

        def c_drop(t):
            i = next(i for i, e in enumerate(t["events"]) if e["op"] == "next")
            del t["events"][i]
            return "one `next` event dropped (as if the call had not been recorded)"

        def c_len(t):
            t["len"] += 1
            return "announced length raised by one"
        for c_ in (c_row, c_drop, c_len):
            tracecheck.selftest(ctx, "TraceBatchIter", good, c_, **kw)
    ctx.extra["real_iterators"] = len(traces)
    ctx.extra["events"] = sum(len(t["events"]) for t in traces)
    ctx.assumptions += ["white-box: the counters (step, index, curr_epoch), the ordering and conc_combo_idxs are read off the object after every call",
                        "batch_size >= 1 (0 divides by zero in the constructor and is not modelled)"]


def replay(ctx, rp):
    t = rp["trace"]
    p = t["par"]
    passes, cur = [], None
    for e in t["events"]:
        if e["op"] == "iter":
            if cur is not None:
                passes.append(cur)
            cur = 0
        elif e["op"] == "next":
            cur += 1
        else:
            passes.append(None)
            cur = None
    if cur is not None:
        passes.append(cur)
    t2 = trace_of(p["n"], p["bs"], p["epochs"], p["mins"], p["maxs"], t["shuffle"], t["combo"], passes, ctx.seed)
    bad = tracecheck.validate(ctx, "TraceBatchIter", [t2], decide=None, init="TInit", next_="TNext", constants=CONSTS, constraint="TInv")
    for i, clause in bad:
        ctx.violation("replayed BatchIterator%s rejected at clause '%s'" % (p, clause), {"kind": "trace", "trace": t2, "clause": clause})
