"""C19 - the orchestration script resumes correctly after an interruption (Orchestrator.tla, TraceOrchestrator.tla).

The REAL nextflow/scripts/batchie.py is imported by path and its main() run in-process against a temporary
output tree.  subprocess.check_call is replaced by a model pipeline that publishes token files one at a time in
a DAG-consistent order; os.mkdir / os.rmdir / os.unlink / the pipeline's publishes are counted and a private
BaseException is raised at a chosen count (the crash).  Every single crash point and (thorough) every pair is
enumerated; the event log of each schedule is validated by TraceOrchestrator.
"""
import glob, hashlib, importlib.util, itertools, json, os, random, re, shutil, sys, tempfile

REPO_SCRIPT = os.path.join(os.environ.get("VERIF_REPO", "/repo"), "nextflow/scripts/batchie.py")
KIND_FILE = {"trainscr": ("prepare", "training.screen.h5"), "testscr": ("prepare", "test.screen.h5"),
             "thetas": ("train", "thetas_0.h5"), "dist": ("distance", "distance_matrix_chunk_0.h5"),
             "selected": ("select", "selected_plate"), "advanced": ("reveal", "advanced_screen.h5"),
             "meta": ("metadata", "screen_metadata.json")}
FILE_KIND = {v[1]: k for k, v in KIND_FILE.items()}
OUTPUTS = {"initial": ["trainscr", "testscr", "thetas", "dist", "selected", "advanced", "meta"],
           "first": ["thetas", "dist", "selected", "advanced", "meta"],
           "next": ["selected", "advanced", "meta"],
           "pfirst": ["thetas", "dist", "selected", "meta"]}


def needs(wf, k):
    return {"trainscr": [], "testscr": [], "thetas": ["trainscr", "testscr"] if wf == "initial" else [],
            "dist": ["thetas"], "selected": [] if wf == "next" else ["dist"], "advanced": ["selected"],
            "meta": [] if wf == "pfirst" else ["advanced"]}[k]


class CrashNow(BaseException):
    pass


class Runaway(BaseException):
    """the script keeps launching pipelines far beyond the length of the uninterrupted run"""


def load_script():
    spec = importlib.util.spec_from_file_location("batchie_orchestrator_under_test", REPO_SCRIPT)
    mod = importlib.util.module_from_spec(spec)
    spec.loader.exec_module(mod)
    mod.logger.disabled = True
    return mod


def _h(obj):
    return hashlib.sha1(json.dumps(obj, sort_keys=True).encode()).hexdigest()[:12]


class Sim:
    """one output tree + the real script + the model pipeline + the crash counter"""

    def __init__(self, mod, root, mode, B, U0, rnd, ref=None):
        self.mod, self.root, self.mode, self.B, self.U0, self.rnd, self.ref = mod, root, mode, B, U0, rnd, ref
        self.out = os.path.join(root, "out")
        self.inp = os.path.join(root, "input.screen.h5")
        with open(self.inp, "w") as fh:
            json.dump({"kind": "input", "hash": "INPUT", "u": U0}, fh)
        self.events, self.count, self.crash_at = [], 0, None
        self.launches = []
        self.in_operator = False
        self.after_batch = False
        self.cur_job = (99, 99)

    # ---- step / path helpers ----
    def step_of(self, path):
        m = re.search(r"iter_(\d+)(?:/plate_(\d+))?", os.path.relpath(path, self.out))
        return (int(m.group(1)), int(m.group(2)) if m.group(2) is not None else None) if m else None

    @staticmethod
    def dir_tok(st):
        """[iteration, plate] of a directory in the log; plate 99 = the iteration directory itself"""
        return [st[0], 99 if st[1] is None else st[1]]

    def tick(self):
        """called before every filesystem mutation"""
        if self.in_operator:
            return
        if self.crash_at is not None and self.count == self.crash_at:
            self.crash_at = None
            raise CrashNow()
        self.count += 1

    # ---- content tokens ----
    def read(self, path):
        try:
            with open(path) as fh:
                txt = fh.read()
            if os.path.basename(path) == "selected_plate":
                return {"kind": "selected", "hash": txt.strip().split("-")[-1], "step": [int(x) for x in txt.strip().split("-")[1:3]], "u": 0}
            return json.loads(txt)
        except Exception:
            return None

    def content(self, tok):
        """projection of a file token to the spec's [s, good, u]"""
        if tok is None:
            return {"s": [99, 99], "good": False, "u": 0}
        if tok.get("kind") == "input":
            return {"s": [-1, -1], "good": True, "u": tok["u"]}
        s = tuple(tok["step"])
        good = True if self.ref is None else (self.ref.get((s, tok["kind"])) == tok["hash"])
        return {"s": list(s), "good": good, "u": tok.get("u", 0)}

    # ---- the model pipeline (replaces subprocess.check_call) ----
    def pipeline(self, cmd, cwd=None):
        a = {}
        i = 0
        while i < len(cmd):
            if cmd[i].startswith("--excludes="):
                a["excludes"] = cmd[i].split("=", 1)[1]
            elif cmd[i].startswith("-") and i + 1 < len(cmd):
                a[cmd[i].lstrip("-")] = cmd[i + 1]
                i += 1
            i += 1
        outdir = a["outdir"]
        step = self.step_of(outdir)
        if len(self.launches) > 6 * (self.U0 + 2) * max(1, self.B):
            raise Runaway()
        mode = a["mode"]
        if mode == "retrospective":
            wf = "initial" if a.get("initialize") == "true" else "first"
        elif mode == "prospective":
            wf = "pfirst"
        else:
            wf = "next"

        def one(pattern):
            g = sorted(glob.glob(pattern))
            return self.read(g[0]) if g else None
        c = {"wf": wf}
        if wf in ("initial", "pfirst", "next"):
            c["screen"] = self.read(a["screen"]) if a.get("screen") and a["screen"] != "None" else None
        if wf == "first":
            c["train"] = self.read(a["training_screen"]) if a.get("training_screen") not in (None, "None") else None
            c["test"] = self.read(a["test_screen"]) if a.get("test_screen") not in (None, "None") else None
        if wf == "next":
            c["thetas"], c["dist"] = one(a["thetas"]), one(a["distance_matrix"])
            ex = [x for x in a.get("excludes", "").split(",") if x]
            c["excl"] = [{"kind": "selected", "hash": x.split("-")[-1], "step": [int(y) for y in x.split("-")[1:3]], "u": 0} for x in ex]
        norm = {k: (sorted((t or {}).get("hash", "NONE") for t in v) if k == "excl" else (v if k == "wf" else (v or {}).get("hash", "NONE")))
                for k, v in c.items()}
        chash = _h(norm)
        proj = {k: ([self.content(t) for t in v] if k == "excl" else (v if k == "wf" else self.content(v))) for k, v in c.items()}
        if any(v is None for k, v in c.items() if k not in ("wf", "excl")):
            raise RuntimeError("model pipeline: missing input file for %s" % wf)     # nextflow: checkIfExists fails
        self.events.append({"ev": "launch", "s": list(step), "c": proj, "hash": chash})
        self.launches.append((step, chash))
        u_in = {"initial": self.U0, "pfirst": self.U0}.get(wf)
        if u_in is None:
            u_in = (c.get("train") or c.get("screen"))["u"]
        # publish in a random order consistent with the process dependency graph of the launched workflow
        done = []
        while len(done) < len(OUTPUTS[wf]):
            ready = [k for k in OUTPUTS[wf] if k not in done and all(n in done for n in needs(wf, k))]
            k = self.rnd.choice(ready)
            sub, fn = KIND_FILE[k]
            tok = {"kind": k, "step": list(step), "hash": chash, "u": {"trainscr": self.U0, "testscr": self.U0, "advanced": u_in - 1,
                                                                     "meta": self.U0 if wf == "pfirst" else u_in - 1}.get(k, 0)}
            def write(path):
                with open(path, "w") as fh:
                    if k == "selected":
                        fh.write("sel-%d-%d-%s" % (step[0], step[1], chash))
                    elif k == "meta":
                        json.dump(dict(tok, n_unobserved_plates=tok["u"]), fh)
                    else:
                        json.dump(tok, fh)
            # the task finishes: its output exists in the work directory (the script passes -work-dir <job dir>/work), not yet published
            self.tick()
            self.in_operator = True
            try:
                wd = os.path.join(outdir, "work", "%02x" % (sum(map(ord, k)) % 251), chash[:8])
                os.makedirs(wd, exist_ok=True)
                write(os.path.join(wd, fn))
            finally:
                self.in_operator = False
            self.tick()                                  # a publish is one atomic filesystem mutation
            d = os.path.join(outdir, sub)
            self.in_operator = True                      # (the pipeline's own mkdir/rename are not separate crash points)
            try:
                os.makedirs(d, exist_ok=True)
                tmp = os.path.join(d, "." + fn + ".tmp")
                write(tmp)
                os.replace(tmp, os.path.join(d, fn))
            finally:
                self.in_operator = False
            done.append(k)
            self.events.append({"ev": "publish", "k": k})
        self.events.append({"ev": "pipeline_done"})
        # "just after a step completes": an interruption point that is not in front of any filesystem mutation
        # (in prospective mode, after the last plate of a batch, the script cannot tell it from a normal end of the invocation and
        # neither can anybody else: it counts as one)
        try:
            self.tick()
        except CrashNow:
            self.after_batch = self.mode == "prospective" and step[1] == self.B - 1
            raise
        return 0

    # ---- one invocation of the script ----
    def invoke(self):
        mod = self.mod = load_script()          # every invocation is a new process: nothing survives in module state
        real = {"mkdir": os.mkdir, "rmdir": os.rmdir, "unlink": os.unlink}
        sim = self

        def inside(p):
            try:
                return os.path.abspath(os.fspath(p)).startswith(sim.out) if not isinstance(p, int) else True
            except TypeError:
                return False

        def w_mkdir(path, *a, **k):
            if sim.in_operator or not inside(path) or os.path.abspath(path) == sim.out:
                return real["mkdir"](path, *a, **k)
            sim.tick()
            r = real["mkdir"](path, *a, **k)
            st = sim.step_of(path)
            if st and st[1] is None:
                sim.events.append({"ev": "mkiter", "i": st[0]})
            elif st:
                sim.events.append({"ev": "mkplate", "s": list(st)})
            return r

        def w_unlink(path, *a, **k):
            if sim.in_operator:
                return real["unlink"](path, *a, **k)
            if os.sep + "work" + os.sep in os.fspath(path):
                return real["unlink"](path, *a, **k)          # (scratch of the pipeline: removed with the job directory, not a step of the model)
            sim.tick()
            r = real["unlink"](path, *a, **k)
            kind = FILE_KIND.get(os.path.basename(os.fspath(path)))
            if kind:
                sim.events.append({"ev": "rm", "k": kind, "s": list(sim.cur_job)})
            return r

        def w_rmdir(path, *a, **k):
            if sim.in_operator:
                return real["rmdir"](path, *a, **k)
            if os.sep + "work" in os.fspath(path):
                return real["rmdir"](path, *a, **k)
            sim.tick()
            r = real["rmdir"](path, *a, **k)
            if re.fullmatch(r"plate_\d+", os.path.basename(os.fspath(path))):
                sim.events.append({"ev": "rmdir", "s": list(sim.cur_job)})
            return r
        orig_scan = mod.examine_output_dir_to_determine_current_iteration
        orig_sel = mod.get_selected_plates

        def scan(*a, **k):
            try:
                r = orig_scan(*a, **k)
            except RuntimeError as e:
                m = re.search(r"continue simulation: (.*)$", str(e))
                d = sim.step_of(m.group(1)) if m else None
                sim.events.append({"ev": "scan", "raised": True, "dir": sim.dir_tok(d) if d else [99, 99], "i": 0, "j": 0})
                raise
            sim.events.append({"ev": "scan", "raised": False, "dir": [99, 99], "i": r[0], "j": r[1]})
            return r

        def sel(*a, **k):
            r = orig_sel(*a, **k)
            sim.events.append({"ev": "decide", "excl_steps": sorted([int(y) for y in x.split("-")[1:3]] for x in (r or []))})
            return r
        real_rmtree = shutil.rmtree

        def rmtree(path, *a, **k):
            st = sim.step_of(path)
            sim.cur_job = st if st and st[1] is not None else (99, 99)
            return real_rmtree(path, *a, **k)
        mod.shutil = type("ShutilProxy", (), {"rmtree": staticmethod(rmtree)})
        mod.examine_output_dir_to_determine_current_iteration = scan
        mod.get_selected_plates = sel
        mod.subprocess.check_call = self.pipeline
        os.mkdir, os.rmdir, os.unlink = w_mkdir, w_rmdir, w_unlink
        old_argv = sys.argv
        sys.argv = ["batchie.py", "--screen", self.inp, "--batch-size", str(self.B), "--mode", self.mode, "--outdir", self.out]
        self.events.append({"ev": "start"})
        try:
            os.makedirs(self.out, exist_ok=True)
            mod.main()
            self.events.append({"ev": "exit"})
            return "exit", None
        except CrashNow:
            if self.after_batch:
                self.events.append({"ev": "exit"})
                return "exit", None
            self.events.append({"ev": "crash"})
            return "crash", None
        except Runaway:
            return "runaway", None
        except RuntimeError as e:
            m = re.search(r"continue simulation: (.*)$", str(e))
            if m and self.step_of(m.group(1)):
                return "named", m.group(1)
            self.events.append({"ev": "died", "msg": "%s: %s" % (type(e).__name__, str(e)[:80])})
            return "died", str(e)
        except Exception as e:  # noqa: BLE001
            self.events.append({"ev": "died", "msg": "%s: %s" % (type(e).__name__, str(e)[:80])})
            return "died", str(e)
        finally:
            os.mkdir, os.rmdir, os.unlink = real["mkdir"], real["rmdir"], real["unlink"]
            sys.argv = old_argv
            mod.examine_output_dir_to_determine_current_iteration = orig_scan
            mod.get_selected_plates = orig_sel
            mod.shutil = shutil

    def tree(self):
        t = {}
        for p in sorted(glob.glob(os.path.join(self.out, "iter_*", "plate_*", "*", "*"))):
            tok = self.read(p)
            t[os.path.relpath(p, self.out)] = (tok or {}).get("hash")
        return t

    def run(self, crashes, max_iter):
        """crashes: list of mutation counts (relative to each (re)start of the schedule position) at which to crash"""
        pending = list(crashes)
        exits = 0
        for _ in range(40):
            self.crash_at = (self.count + pending.pop(0)) if pending else None
            self.after_batch = False
            what, info = self.invoke()
            if what == "named":
                self.in_operator = True
                try:
                    shutil.rmtree(info)
                finally:
                    self.in_operator = False
                self.events.append({"ev": "operator_remove", "dir": self.dir_tok(self.step_of(info))})
            elif what == "died":
                return "died"
            elif what == "runaway":
                return "too-many-reruns"
            elif what == "exit":
                exits += 1
                if self.mode == "retrospective":
                    # starting the script again on a finished simulation must find nothing to do
                    self.crash_at = None
                    what, info = self.invoke()
                    return "finished" if what == "exit" else "rerun-of-finished-" + what
                if exits >= max_iter:
                    return "finished"
        return "too-many-reruns"


def reference(mod, mode, B, U0, max_iter, seed):
    root = tempfile.mkdtemp(prefix="verif-c19-")
    try:
        s = Sim(mod, root, mode, B, U0, random.Random(seed))
        out = s.run([], max_iter)
        ref = {}
        for p in glob.glob(os.path.join(s.out, "iter_*", "plate_*", "*", "*")):
            tok = s.read(p)
            st = s.step_of(p)
            if tok and os.path.basename(p) in FILE_KIND:
                ref[(st, FILE_KIND[os.path.basename(p)])] = tok["hash"]
        return out, s.count, ref, s.tree(), s
    finally:
        shutil.rmtree(root, ignore_errors=True)


def schedule(mod, mode, B, U0, max_iter, crashes, ref, ref_tree, seed):
    root = tempfile.mkdtemp(prefix="verif-c19-")
    try:
        s = Sim(mod, root, mode, B, U0, random.Random(seed), ref=ref)
        out = s.run(crashes, max_iter)
        if out == "finished":
            s.events.append({"ev": "end", "tree_equal": s.tree() == ref_tree})
        return {"mode": mode, "B": B, "U0": U0, "crashes": list(crashes), "outcome": out, "events": s.events}
    finally:
        shutil.rmtree(root, ignore_errors=True)


CFG_INV = ["NoCompletedDeleted", "SameAsCrashFree", "NeverDies"]
CFG_PROP = ["NoRelaunchOfCompleted", "NoSkipStrict"]
ACTIONS = ["Start", "Scan", "Decide", "RmDir", "MkIter", "MkPlate", "Launch", "Publish", "PipelineDone", "Crash", "OperatorRemove"]


def consts(mode, B, U0, max_iter, max_crash, strict=None):
    c = {"B": B, "U0": U0, "MaxIter": max_iter, "Mode": mode, "MaxCrash": max_crash, "BugReset": False, "MetaOnly": False}
    if strict is not None:
        c["Strict"] = strict
    return c


def run(ctx):
    from harness import tlc
    from harness.tracecheck import validate
    rnd = random.Random(ctx.seed)
    mod = load_script()
    # (A) the design: exhaustive over crash points of the specification itself
    grid = [("retrospective", 1, 3), ("retrospective", 3, 4), ("prospective", 1, 3), ("prospective", 3, 4)] if ctx.quick else \
        [(m, b, u) for m in ("retrospective", "prospective") for b in (1, 2, 3, 4) for u in (3, 5)] + [("retrospective", 3, 8)]
    seen = set()
    for mode, B, U0 in grid:
        mc = 2 if ctx.quick else 3
        r = ctx.tlc("Orchestrator", tlc.cfg(spec="Spec", constants=consts(mode, B, U0, 2, mc), invariants=CFG_INV, properties=CFG_PROP),
                    note="design %s B=%d U0=%d crashes<=%d" % (mode, B, U0, mc), coverage=True)
        if r.violation:
            ctx.violation("design-level: Orchestrator (fixed scan, completion = metadata + selected_plate) violates %s for %s B=%d"
                          % (r.violation, mode, B), {"kind": "tlc", "tlc": r.violation_text[:4000]})
        seen |= {a for a in ACTIONS if r.coverage.get(a, (0, 0))[1] > 0}
    missing = [a for a in ACTIONS if a not in seen]
    if missing:
        raise tlc.TLCError("vacuity guard: Orchestrator actions never taken: %s" % missing)
    if not ctx.quick:
        r = ctx.tlc("Orchestrator", tlc.cfg(spec="FairSpec", constants=consts("retrospective", 2, 3, 2, 1), properties=["EventuallyFinished"]),
                    note="liveness: the run finishes once crashes stop (no state constraint)")
        if r.violation:
            ctx.violation("design-level: liveness EventuallyFinished violated", {"kind": "tlc", "tlc": r.violation_text[:4000]})
    ctx.exhaustive = True
    # (C) the real script under every crash point
    confs = [("retrospective", 1, 3), ("retrospective", 3, 4), ("prospective", 1, 3), ("prospective", 3, 4), ("retrospective", 1, 12)] if ctx.quick else \
        [(m, b, 4) for m in ("retrospective", "prospective") for b in (1, 2, 3, 4)] + [("retrospective", 3, 6), ("retrospective", 2, 5), ("retrospective", 1, 13),
                                                                                 ("retrospective", 2, 23)]
    total_sched = 0
    for mode, B, U0 in confs:
        max_iter = 2
        out, M, ref, ref_tree, s0 = reference(mod, mode, B, U0, max_iter, ctx.seed)
        if out != "finished":
            ctx.violation("uninterrupted run of the real script does not finish (%s B=%d): %s" % (mode, B, out),
                          {"kind": "schedule", "mode": mode, "B": B, "U0": U0, "crashes": []})
            continue
        scheds = [[m] for m in range(M + 1)]
        pairs = [[a, b] for a in range(M + 1) for b in range(0, M + 1)]
        if U0 > 10:          # more than ten iterations (iter_10 sorts before iter_2 as a string): sampled crash points only
            scheds, pairs = rnd.sample(scheds, 25 if ctx.quick else 120), rnd.sample(pairs, 10 if ctx.quick else 200)
        if ctx.quick:
            scheds += rnd.sample(pairs, min(len(pairs), 60))
        else:
            scheds += pairs if len(pairs) <= 2500 else rnd.sample(pairs, 2500)
        traces = [schedule(mod, mode, B, U0, max_iter, [], ref, ref_tree, ctx.seed)]
        for i, cr in enumerate(scheds):
            traces.append(schedule(mod, mode, B, U0, max_iter, cr, ref, ref_tree, ctx.seed + 1 + i % 7))
        ctx.evaluations += len(traces)
        total_sched += len(traces)
        for t in traces:
            if t["outcome"] == "too-many-reruns":
                ctx.violation("rerunning never ends (%s B=%d crashes at %s)" % (mode, B, t["crashes"]),
                              {"kind": "schedule", "mode": mode, "B": B, "U0": U0, "crashes": t["crashes"]})
        # verdict on the property: liberal replay (filesystem, pipeline, ghosts; the script's decisions as observed)
        bad = validate(ctx, "TraceOrchestrator", traces, decide=None, next_="TNext", init="TInit", constraint="C19Clauses",
                       constants=consts(mode, B, U0, max_iter, 99, strict=False),
                       note="property clauses on %s B=%d U0=%d, %d mutation points" % (mode, B, U0, M), chunk=1500)
        shown = 0
        for i, clause in bad:
            t = traces[i]
            if shown < 3:
                what = "%s B=%d U0=%d, crash before mutation(s) %s: rejected at '%s' (outcome %s); last events %s" % (
                    mode, B, U0, t["crashes"], clause, t["outcome"], [e["ev"] for e in t["events"]][-6:])
                ctx.violation(what, {"kind": "schedule", "mode": mode, "B": B, "U0": U0, "crashes": t["crashes"], "clause": clause})
                shown += 1
        if not bad:
            from harness.tracecheck import selftest

            def corrupt(t):
                i = [k for k, e in enumerate(t["events"]) if e["ev"] == "publish"][2]
                del t["events"][i]
                return "one logged publish event removed (as if the hook had not fired)"
            selftest(ctx, "TraceOrchestrator", traces[0], corrupt, decide=None, next_="TNext", init="TInit", constraint="C19Clauses",
                     constants=consts(mode, B, U0, max_iter, 99, strict=False))
        # conformance of the script's control flow to Orchestrator.tla: binds the design-level TLC result to this code
        before = ctx.traces
        drift = validate(ctx, "TraceOrchestrator", traces, decide=None, next_="TNext", init="TInit", constraint="C19Clauses",
                         constants=consts(mode, B, U0, max_iter, 99, strict=True),
                         note="control-flow conformance %s B=%d U0=%d" % (mode, B, U0), chunk=1500)
        ctx.traces = before + (ctx.traces - before) // 1
        only_drift = [d for d in drift if d[0] not in {b[0] for b in bad}]
        ctx.extra.setdefault("model_drift", {})["%s-B%d-U%d" % (mode, B, U0)] = len(only_drift)
        if only_drift:
            i, clause = only_drift[0]
            print("NOTE model-drift property=C19: %d schedule(s) satisfy every clause of C19 but are not behaviours of Orchestrator.tla "
                  "(first: crashes %s at '%s'); the specification of the script's control flow needs updating" % (
                      len(only_drift), traces[i]["crashes"], clause))
        ctx.sample({"schedule": {k: traces[min(3, len(traces) - 1)][k] for k in ("mode", "B", "U0", "crashes", "outcome")},
                    "events": [e["ev"] for e in traces[min(3, len(traces) - 1)]["events"]][:40]})
        ctx.extra.setdefault("mutation_points", {})["%s-B%d-U%d" % (mode, B, U0)] = M
    ctx.extra["crash_schedules_run"] = total_sched
    # (D) end to end: the real script drives the REAL command-line programs (prepare, train, distance, scores, select, reveal,
    # metadata) in-process along the workflow DAG; TracePipeline replays one event per completed step
    from harness.pipeline import run_e2e
    rnd2 = random.Random(ctx.seed + 99)
    run_e2e(ctx, "C19", [(2, ctx.seed), (2, ctx.seed, rnd2.randint(1, 22))] if ctx.quick else
            [(b, ctx.seed + k) for b in (1, 2, 3) for k in (0, 1)] + [(b, ctx.seed, c) for b in (2, 3) for c in range(0, 26, 2)])
    ctx.assumptions += ["Nextflow is replaced by a model pipeline: publishing a file is atomic and respects the process dependencies of the "
                        "launched workflow (and only those)", "the operator removes exactly the directory the script names",
                        "--batch-size and the input screen do not change between reruns",
                        "pipeline steps are deterministic functions of their inputs (content identity = hash of the launching command)"]


def _classify(t, clause):
    return None


def replay(ctx, rp):
    from harness.tracecheck import validate
    mod = load_script()
    mode, B, U0 = rp["mode"], rp["B"], rp["U0"]
    out, M, ref, ref_tree, _ = reference(mod, mode, B, U0, 2, ctx.seed)
    t = schedule(mod, mode, B, U0, 2, rp["crashes"], ref, ref_tree, ctx.seed)
    bad = validate(ctx, "TraceOrchestrator", [t], decide=None, next_="TNext", init="TInit", constraint="C19Clauses",
                   constants=consts(mode, B, U0, 2, 99, strict=False))
    for i, clause in bad:
        ctx.violation("replay: rejected at '%s' (outcome %s)" % (clause, t["outcome"]), rp)
