"""C12 - see harness/lifecycle.py (Lifecycle.tla, TraceLifecycle.tla with Focus = "C12")."""
from harness.lifecycle import run_lifecycle, replay_lifecycle, run_construct


def run(ctx):
    run_construct(ctx)
    run_lifecycle(ctx, "C12")
    if not ctx.quick:      # the composed loop (real script + real command-line programs): this property's clauses of it
        from harness.pipeline import run_e2e
        run_e2e(ctx, "C12", [(2, ctx.seed), (3, ctx.seed + 1)])


def replay(ctx, rp):
    if rp.get("kind", "").startswith("construct"):
        run_construct(ctx)
    else:
        replay_lifecycle(ctx, "C12", rp)
