"""C11 - see harness/retro.py (Retro.tla, TraceRetro.tla with Focus = "C11")."""
from harness.retro import run_retro, replay_retro


def run(ctx):
    run_retro(ctx, "C11")


def replay(ctx, rp):
    replay_retro(ctx, "C11", rp)
