"""C08 - each Gibbs block draws from the exact full conditional of the documented model (Gibbs.tla)."""
import copy, math, json, math, random
import numpy as np

from batchie.data import Screen, ExperimentSpace
from batchie.models import sparse_combo as SC
from batchie.fast_mvn import sample_mvn_from_precision as real_mvn
from harness.terms import ev, close
from harness.util import outcome

SMAP = (np.array(["s0", "s1"], dtype=str), np.array([0, 1]))
TMAP = (np.array(["ctl", "t0", "t1"], dtype=str), np.array([0.0, 1.0, 1.0]), np.array([-1, 0, 1]))
PARAMS = ["W", "W0", "V0", "V1", "V2", "alpha", "prec", "tau", "tau0", "phi0", "phi1", "phi2", "eta0", "eta1", "eta2", "gam", "Mu"]
BLOCKS = ["_reconstruct_Mu", "_alpha_step", "_W0_step", "_V0_step", "_W_step", "_V2_step", "_V1_step", "_prec_W0_step", "_prec_V0_step",
          "_prec_obs_step", "_prec_V2_step", "_prec_V1_step", "_prec_W_step"]
BLOCK_OF = {"_W0_step": "W0", "_V0_step": "V0", "_W_step": "W", "_V2_step": "V2", "_V1_step": "V1", "_prec_W0_step": "prec_W0",
            "_prec_V0_step": "prec_V0", "_prec_obs_step": "prec_obs", "_prec_V2_step": "prec_V2", "_prec_V1_step": "prec_V1", "_prec_W_step": "prec_W"}
EPS = 5e-4


def screen_of(rows, rng):
    n = len(rows)
    tn = np.array([[("ctl" if d < 0 else "t%d" % d) for d in (r["d1"], r["d2"])] for r in rows], dtype=str).reshape(n, 2)
    td = np.array([[(0.0 if d < 0 else 1.0) for d in (r["d1"], r["d2"])] for r in rows], dtype=float).reshape(n, 2)
    sn = np.array(["s%d" % r["c"] for r in rows], dtype=str)
    obs = rng.uniform(0.03, 0.97, size=n)
    if n and rng.random() < 0.3:
        obs[int(rng.integers(n))] = rng.choice([0.0, 0.001, 1.0, 1.7])
    return Screen(treatment_names=tn, treatment_doses=td, sample_names=sn, plate_names=np.array(["p"] * n, dtype=str), observations=obs,
                  control_treatment_name="ctl", sample_mapping=SMAP, treatment_mapping=TMAP)


SPLIT_VECTOR_NORMALS = [False]


class Recorder:
    """logs every random draw of one sampler with the state at that moment, and every block boundary"""

    def __init__(self, wm, seed):
        self.wm, self.log, self.rs = wm, [], np.random.RandomState(seed)
        self.gen = np.random.default_rng(seed + 1)

    perm = None          # position of the n-th experiment of the dataset (as the script numbers them) in the sampler's own arrays

    def snap(self):
        d = {k: copy.deepcopy(np.asarray(getattr(self.wm, k), dtype=float)) for k in PARAMS if hasattr(self.wm, k)}
        if self.perm is not None and "Mu" in d and d["Mu"].shape == (len(self.perm),):
            d["Mu"] = d["Mu"][self.perm]
        return d

    def normal(self, loc=0.0, scale=1.0, size=None):
        s = self.snap()
        out = self.rs.normal(loc, scale, size)
        o = np.asarray(out, dtype=float)
        if o.ndim >= 1 and o.size > 1 and SPLIT_VECTOR_NORMALS[0]:
            # several independent normal draws requested in one call: one event per element (the model lists them element by element)
            L, S = np.broadcast_to(np.asarray(loc, dtype=float), o.shape).ravel(), np.broadcast_to(np.asarray(scale, dtype=float), o.shape).ravel()
            for i_ in range(o.size):
                self.log.append({"fn": "normal", "loc": np.asarray(L[i_]), "scale": np.asarray(S[i_]), "out": np.asarray(o.ravel()[i_]), "snap": s})
            return out
        self.log.append({"fn": "normal", "loc": np.asarray(loc, dtype=float), "scale": np.asarray(scale, dtype=float), "out": o, "snap": s})
        return out

    def gamma(self, shape, scale=1.0, size=None):
        s = self.snap()
        out = self.rs.gamma(shape, scale, size)
        self.log.append({"fn": "gamma", "shape": np.asarray(shape, dtype=float), "scale": np.asarray(scale, dtype=float), "out": np.asarray(out, dtype=float), "snap": s})
        return out

    def mvn(self, Q, mu=None, mu_part=None, chol_factor=False, rng=None):
        s = self.snap()
        out = real_mvn(Q, mu=mu, mu_part=mu_part, chol_factor=chol_factor, rng=self.gen)
        self.log.append({"fn": "mvn", "Q": np.asarray(Q, dtype=float).copy(), "b": np.asarray(mu_part, dtype=float).copy(), "out": np.asarray(out, dtype=float), "snap": s})
        return out

    def wrap_block(self, name):
        f = getattr(self.wm, name)

        def g(*a, **k):
            self.log.append({"fn": "block_begin", "block": name})
            r = f(*a, **k)
            self.log.append({"fn": "block_end", "block": name, "snap": self.snap()})
            return r
        setattr(self.wm, name, g)


def env_of(snap, y, prev=None, out=None):
    e = dict(snap)
    e["y"] = y
    if prev is not None:
        e["prev"] = np.asarray(prev, dtype=float).ravel()
    if out is not None:
        e["out"] = np.asarray(out, dtype=float).ravel()
    return e


def vec_close(got, terms, env, label):
    got = np.asarray(got, dtype=float)
    flat = np.full(len(terms), float(got.ravel()[0])) if got.size == 1 else got.ravel()
    if len(flat) != len(terms):
        return "%s has %d entries, the conditional has %d" % (label, len(flat), len(terms))
    for i, t in enumerate(terms):
        w, mag = ev(t, env)
        if not close(float(flat[i]), w, mag, EPS):
            return "%s[%d] = %.9g, full conditional %.9g" % (label, i, float(flat[i]), w)
    return None


def _wm(wmag):
    w, mag = wmag
    return w, max(mag, abs(w))


REORDERED = [0]          # draws that matched another element of their block than the next one in script order (drift, not a verdict)


def check_sweep(case, log, y):
    """one recorded sweep against the script; returns None or a message"""
    script = case["script"]
    order = [e["block"] for e in log if e["fn"] == "block_begin"]
    if order != BLOCKS:
        return "blocks visited %s, documented order %s" % (order, BLOCKS)
    si, used = 0, set()
    cur, prev_out, draws_in_block = None, None, []
    for j_, e in enumerate(log):
        if e["fn"] == "block_begin":
            cur, prev_out, draws_in_block = e["block"], None, []
            continue
        if e["fn"] == "block_end":
            snap = e["snap"]
            blk = BLOCK_OF.get(cur)
            # every draw the script expects for this block must have happened
            missing = [x for x in range(len(script)) if x not in used and script[x]["block"] == blk] if blk else []
            if missing:
                return "block %s made %d draws, the model needs more (next: %s %s)" % (blk, len(draws_in_block), script[missing[0]]["block"], script[missing[0]]["idx"])
            if cur == "_alpha_step":
                w, mag = ev(case["alpha"], env_of(snap, y))
                if not close(float(snap["alpha"]), w, mag, 1e-5):
                    return "alpha = %.9g, mean of the transformed observations %.9g" % (float(snap["alpha"]), w)
            if cur in ("_reconstruct_Mu", "_alpha_step", "_W0_step", "_V0_step", "_W_step", "_V2_step", "_V1_step") and len(y):
                for n_, t in enumerate(case["fit"]):
                    w, mag = ev(t, env_of(snap, y))
                    if not close(float(snap["Mu"][n_]), w, mag, EPS):
                        return "after %s the running fitted value of observation %d is %.9g, the parameters imply %.9g" % (cur, n_, float(snap["Mu"][n_]), w)
            # stored values (incl. clipping bounds) of the draws of this block
            for d, sc in draws_in_block:
                for st in sc["store"]:
                    w, mag = ev(st["v"], env_of(d["snap"], y, out=d["out"]))
                    later = [x for x in draws_in_block if x[0] is not d and any(s2["a"] == st["a"] and s2["i"] == st["i"] for s2 in x[1]["store"])]
                    if later and later[-1][0] is not d and draws_in_block.index(later[-1]) > draws_in_block.index((d, sc)):
                        continue
                    arr = snap[st["a"]]
                    g = float(arr[tuple(st["i"])] if st["i"] else arr)
                    if not close(g, w, max(mag, abs(w)), 1e-5):
                        return "after %s, %s%s = %.9g, expected %.9g (draw %.9g, clipped to its documented bounds)" % (cur, st["a"], st["i"], g, w, float(np.ravel(d["out"])[0]))
            if cur == "_prec_W_step":
                for k_, t in enumerate(case["tau"]):
                    w, mag = ev(t, env_of(snap, y))
                    if not close(float(snap["tau"][k_]), w, max(mag, abs(w)), 1e-5):
                        return "tau[%d] = %.9g, cumulative product of gam clipped = %.9g" % (k_, float(snap["tau"][k_]), w)
            continue
        # a draw: it must be the full-conditional draw of SOME element of this block that has not been drawn yet in this sweep, given
        # the state at this very moment (the order of the elements inside a block is not part of C08; the script order is only tried first)
        blk = BLOCK_OF.get(cur)

        def match(ev_):
            pending = [x for x in range(len(script)) if x not in used and script[x]["block"] == blk]
            if not pending:
                nxt = [x for x in range(len(script)) if x not in used]
                return None, "unexpected %s draw in %s (the model expects %s)" % (ev_["fn"], cur, script[nxt[0]]["block"] if nxt else "nothing more")
            env = env_of(ev_["snap"], y, prev=prev_out)
            first_msg, hit = None, None
            for x in pending:
                sc = script[x]
                label = "%s%s" % (sc["block"], sc["idx"])
                if sc["kind"] == "not-gaussian":
                    msg = None
                elif sc["fn"] != ev_["fn"]:
                    msg = "%s drawn with %s, the model requires %s (%s)" % (label, ev_["fn"], sc["fn"], sc["kind"])
                elif sc["fn"] == "normal" and len(sc["loc"]) != max(1, np.asarray(ev_["out"]).size):
                    msg = "%s is a draw of %d value(s), %d were requested in this call" % (label, len(sc["loc"]), np.asarray(ev_["out"]).size)
                elif sc["fn"] == "normal":
                    msg = vec_close(ev_["loc"], sc["loc"], env, label + " normal mean") or vec_close(ev_["scale"], sc["scale"], env, label + " normal sd")
                elif sc["fn"] == "gamma":
                    msg = vec_close(ev_["shape"], sc["shape"], env, label + " gamma shape") or vec_close(1.0 / np.asarray(ev_["scale"], dtype=float), sc["rate"], env, label + " gamma rate")
                else:
                    msg = vec_close(ev_["Q"], [t for row in sc["Q"] for t in row], env, label + " precision matrix Q") or vec_close(ev_["b"], sc["b"], env, label + " linear term")
                if msg is None:
                    # several elements can have the same conditional (e.g. prior draws): the one whose stored value shows up in the state
                    # right after this draw is the one that was drawn
                    nxt_snap = next((f["snap"] for f in log[j_ + 1:] if "snap" in f), None)
                    ok_store = nxt_snap is not None and all(
                        close(float(nxt_snap[st["a"]][tuple(st["i"])] if st["i"] else nxt_snap[st["a"]]), *_wm(ev(st["v"], env_of(ev_["snap"], y, out=ev_["out"]))), 1e-5)
                        for st in sc["store"])
                    if hit is None or ok_store:
                        hit = x
                    if ok_store:
                        break
                first_msg = first_msg or msg
            if hit is None:
                return None, first_msg
            if hit != pending[0]:
                REORDERED[0] += 1
            return hit, None

        hit, msg = match(e)
        if hit is None and e["fn"] == "normal" and np.asarray(e["out"]).size > 1:
            # several independent normal draws requested in ONE call: each element must be the draw of its own element of the block
            o = np.asarray(e["out"], dtype=float).ravel()
            L = np.broadcast_to(np.asarray(e["loc"], dtype=float), np.asarray(e["out"]).shape).ravel()
            S = np.broadcast_to(np.asarray(e["scale"], dtype=float), np.asarray(e["out"]).shape).ravel()
            parts, bad_ = [], None
            for i_ in range(o.size):
                pe = {"fn": "normal", "loc": np.asarray(L[i_]), "scale": np.asarray(S[i_]), "out": np.asarray(o[i_]), "snap": e["snap"]}
                h_, m_ = match(pe)
                if h_ is None:
                    bad_ = m_
                    break
                used.add(h_)
                parts.append((pe, script[h_]))
            if bad_ is None:
                REORDERED[0] += 1
                si = len(used)
                prev_out = e["out"]
                draws_in_block.extend(parts)
                continue
            for pe, sc_ in parts:
                used.discard(script.index(sc_))
        if hit is None:
            return msg
        used.add(hit)
        si = len(used)
        prev_out = e["out"]
        draws_in_block.append((e, script[hit]))
    if si != len(script):
        return "the sweep made %d draws, the model needs %d" % (si, len(script))
    return None


def bounds_msg(wm):
    """every precision inside its documented bounds: [1/sqrt(1+n), 1e6] (local scales: 1/sqrt(1+N1+N2) per treatment) - the `Clipped` terms of Gibbs.tla"""
    lo = 1.0 / np.sqrt(1.0 + wm.n_obs())
    N = np.array([len(wm.dd1_idxs[c]) + len(wm.dd2_idxs[c]) for c in range(wm.n_drugdoses)], dtype=float)
    lo_t = 1.0 / np.sqrt(1.0 + N)
    for name in ("prec", "eta0", "eta1", "eta2", "tau", "tau0"):
        if name == "prec" and wm.n_obs() == 0:
            continue          # without data the noise precision is a plain prior draw (PrecObs, N = 0, in Gibbs.tla): no bound is documented
        v = np.asarray(getattr(wm, name), dtype=float)
        if v.size and (not np.all(np.isfinite(v)) or v.min() < lo * (1 - 1e-5) or v.max() > 1e6 * (1 + 1e-5)):
            return "%s = %s leaves its documented bounds [%.6g, 1e6]" % (name, v, lo)
    for name in ("phi0", "phi1", "phi2"):
        v = np.asarray(getattr(wm, name), dtype=float)
        l = lo_t if v.ndim == 1 else lo_t[:, None]
        if v.size and (not np.all(np.isfinite(v)) or np.any(v < l * (1 - 1e-5)) or v.max() > 1e6 * (1 + 1e-5)):
            return "%s leaves its documented bounds [1/sqrt(1+N1+N2), 1e6]: %s" % (name, v)
    return None


def long_chain(D, n_samples, steps, seed):
    """many sweeps with a large embedding: only the state invariants (bounds, fitted-value cache) are evaluated"""
    rng = np.random.default_rng(seed)
    rows = [{"c": int(rng.integers(n_samples)), "d1": int(a), "d2": int(b)} for a, b in [(0, 1), (0, -1), (-1, 1), (1, 0)]][: 2 + seed % 3]
    scr = screen_of(rows, rng)
    model = SC.SparseDrugCombo(experiment_space=ExperimentSpace.from_screen(scr), n_embedding_dimensions=D)
    model.add_observations(scr)
    wm = model.wrapped_model
    saved = np.random.get_state()
    np.random.seed(seed)
    try:
        for step in range(steps):
            st, r = outcome(model.step)
            if st != "ok":
                return "step %d raised %s" % (step, r)
            msg = bounds_msg(wm)
            if msg:
                return "after step %d: %s" % (step + 1, msg)
            mu = np.asarray(wm.Mu, dtype=float).copy()
            wm._reconstruct_Mu(clip=False)
            mu2 = np.asarray(wm.Mu, dtype=float)
            if not np.allclose(mu, mu2, rtol=0, atol=2e-3 * (1 + np.abs(mu2).max() + float(np.abs(np.asarray(wm.W, dtype=float)).max()) ** 2 * D)):
                return "after step %d the running fitted values %s differ from those implied by the parameters %s" % (step + 1, mu, mu2)
    finally:
        np.random.set_state(saved)
    return None


def run_case(case, seed, steps, rng, inject=False, two_phase=False):
    rows, D = case["rows"], case["D"]
    scr = screen_of(rows, rng)
    model = SC.SparseDrugCombo(experiment_space=ExperimentSpace.from_screen(scr), n_embedding_dimensions=D)
    if rows and two_phase and len(rows) >= 2:
        # the data arrive in two instalments with a sweep in between (a running screen): afterwards the sampler is in a state
        # of the FULL dataset, and every clause is about that dataset
        k = 1 + seed % (len(rows) - 1)
        first = np.zeros(len(rows), dtype=bool)
        first[:k] = True
        model.add_observations(scr.subset(first))
        st, r = outcome(model.step)
        if st != "ok":
            return "step after the first instalment raised %s" % r
        model.add_observations(scr.subset(~first))
    elif rows:
        model.add_observations(scr)
    wm = model.wrapped_model
    y = np.asarray(wm.y, dtype=float)
    # the sampler may keep its training data in any order (C08 is about the dataset, not about its storage order): find where the
    # n-th experiment of the dataset sits, by its ids and transformed value
    perm = None
    if rows and len(y) == len(rows):
        yexp = [math.log(min(max(float(np.float32(v)), 0.01), 0.99) / (1 - min(max(float(np.float32(v)), 0.01), 0.99))) for v in scr.observations]
        free, perm = list(range(len(y))), []
        for n_, r_ in enumerate(rows):
            cand = [j for j in free if (int(wm.cline[j]), int(wm.dd1[j]), int(wm.dd2[j])) == (r_["c"], r_["d1"], r_["d2"])]
            if not cand:
                perm = None
                break
            j = min(cand, key=lambda j_: abs(float(wm.y[j_]) - yexp[n_]))
            perm.append(j)
            free.remove(j)
        if perm is not None and perm != list(range(len(y))):
            y = y[perm]
        else:
            perm = None
    rec = Recorder(wm, seed)
    rec.perm = perm
    for b in BLOCKS:
        rec.wrap_block(b)
    saved = (np.random.normal, np.random.gamma, SC.sample_mvn_from_precision)
    np.random.normal, np.random.gamma, SC.sample_mvn_from_precision = rec.normal, rec.gamma, rec.mvn
    exported = []
    try:
        for step in range(steps):
            if inject and step == 1:
                # any parameter vector is a reachable state of the Gaussian blocks: continue from one whose fitted values are far out
                wm.W0[...] = (wm.W0 + rng.choice([-13.0, 12.0], size=np.shape(wm.W0))).astype(wm.W0.dtype)
                wm.V0[...] = (wm.V0 * 3).astype(wm.V0.dtype)
            rec.log.clear()
            st, r = outcome(model.step)
            if st != "ok":
                return "step %d raised %s" % (step, r)
            msg = check_sweep(case, list(rec.log), y) or bounds_msg(wm)
            if msg:
                return "step %d: %s" % (step + 1, msg)
            # exported posterior sample reproduces the sampler's fitted values and noise precision
            th = model.get_model_state()
            exported.append((step + 1, th, {nm: np.array(getattr(th, nm), dtype=float, copy=True) for nm in ("W", "W0", "V0", "V1", "V2")}, float(th.alpha), float(th.precision)))
            if float(th.precision) != float(wm.prec):
                return "exported precision %r differs from the sampler's %r" % (th.precision, wm.prec)
            for name in ("W", "W0", "V0", "V1", "V2"):
                if not np.array_equal(np.asarray(getattr(th, name), dtype=float), np.asarray(getattr(wm, name), dtype=float)):
                    return "exported %s differs from the sampler's current %s" % (name, name)
            if rows:
                pm = th.predict_conditional_mean(scr)
                mu = np.asarray(wm.Mu, dtype=float)
                if perm is not None:
                    mu = mu[perm]          # (fitted values in the order of the dataset, as the prediction on the screen is)
                if not np.allclose(pm, mu, rtol=0, atol=EPS * (1 + np.abs(mu).max() + sum(np.abs(np.asarray(getattr(wm, k), dtype=float)).max() ** 2 for k in ("W", "V1", "V2")) * D)):
                    return "exported sample predicts %s on the training data, the sampler's fitted values are %s" % (pm, mu)
        # a posterior sample exported after step k is the state after step k for good: later sweeps do not reach into it
        for k_, th_, arrs, al_, pr_ in exported:
            for nm, a_ in arrs.items():
                if not np.array_equal(np.asarray(getattr(th_, nm), dtype=float), a_):
                    return "the sample exported after step %d no longer holds the %s it was exported with (changed by a later sweep)" % (k_, nm)
            if float(th_.alpha) != al_ or float(th_.precision) != pr_:
                return "the sample exported after step %d no longer holds the alpha / precision it was exported with" % k_
    finally:
        np.random.normal, np.random.gamma, SC.sample_mvn_from_precision = saved
    return None


class ZProxy:
    def __init__(self, z):
        self.z = np.asarray(z, dtype=float)

    def normal(self, loc=0.0, scale=1.0, size=None):
        return self.z.copy()


def check_mvn(rng, D):
    A = rng.normal(size=(D, D))
    Q = A @ A.T + np.eye(D) * rng.uniform(0.1, 2)
    b = rng.normal(size=D)
    x0 = real_mvn(Q.copy(), mu_part=b.copy(), rng=ZProxy(np.zeros(D)))
    if not np.allclose(Q @ x0, b, atol=1e-8 * (1 + np.abs(b).max())):
        return "multivariate normal draw: mean is not Q^-1 b"
    S = np.zeros((D, D))
    for k in range(D):
        e = np.zeros(D)
        e[k] = 1
        d = real_mvn(Q.copy(), mu_part=b.copy(), rng=ZProxy(e)) - x0
        S += np.outer(d, d)
    if not np.allclose(Q @ S, np.eye(D), atol=1e-8):
        return "multivariate normal draw: covariance is not Q^-1"
    return None


def cases_for(ctx, rnd, selfpairs):
    out = []
    shapes = [(c, d1, d2) for c in (0, 1) for d1 in (-1, 0, 1) for d2 in (-1, 0, 1) if (d1 == d2 and d1 != -1) == False or selfpairs]
    n_cases = (40 if ctx.quick else 400) if not selfpairs else (4 if ctx.quick else 20)
    fixed = [[], [(0, 0, 1)], [(0, 0, -1), (0, -1, 1), (0, 0, 1)], [(0, 0, 1), (1, 1, 0), (1, -1, -1)], [(1, 1, -1)]] if not selfpairs else [[(0, 0, 0)], [(0, 1, 1), (0, 0, 1)]]
    for rows in fixed:
        for D in (1, 2, 3):
            out.append({"rows": [{"c": c, "d1": a, "d2": b} for c, a, b in rows], "D": D})
    while len(out) < n_cases:
        n = rnd.randint(1, 4 if ctx.quick else 6)
        rows = [rnd.choice(shapes) for _ in range(n)]
        if selfpairs and not any(a == b and a != -1 for _, a, b in rows):
            rows[0] = (rows[0][0], 1, 1)
        out.append({"rows": [{"c": c, "d1": a, "d2": b} for c, a, b in rows], "D": rnd.choice([1, 2, 2, 3, 4] if not ctx.quick else [1, 2, 3])})
    return out


def run(ctx):
    from harness import tlc
    rnd = random.Random(ctx.seed)
    rng = np.random.default_rng(ctx.seed)
    inv = ["OrderOnce", "Coherent", "ExportCase"]
    base = {"NC": 2, "ND": 2, "MaxRows": 2 if ctx.quick else 3, "MaxD": 2, "AllowSelfPairs": False, "Export": False, "UseCases": False}
    r = ctx.tlc("Gibbs", tlc.cfg(constants=base, invariants=inv), note="every dataset of <=%d rows (2 samples, 2 treatments + control, no self-pairs): block order, coherence of the cache patches" % base["MaxRows"],
                env={"CASES_FILE": "none"}, coverage=True)
    if r.violation:
        ctx.violation("design-level: Gibbs violates %s" % r.violation, {"kind": "tlc", "tlc": r.violation_text[:3000]})
    ctx.exhaustive = True
    for selfpairs in (False, True):
        cases = cases_for(ctx, rnd, selfpairs)
        c = dict(base, AllowSelfPairs=True, Export=True, UseCases=True)
        r = ctx.tlc("Gibbs", tlc.cfg(constants=c, invariants=["OrderOnce", "ExportCase"]), note="sweep scripts for %d datasets (self-pairs: %s)" % (len(cases), selfpairs),
                    files={"cases.json": json.dumps(cases)}, env={"CASES_FILE": "cases.json"}, workers=8, heap="12g", count=not selfpairs)
        if r.violation:
            ctx.violation("design-level: Gibbs violates %s" % r.violation, {"kind": "tlc", "tlc": r.violation_text[:3000]})
            continue
        scripts = r.by_tag("gibbs")
        nbad = 0
        for i, case in enumerate(scripts):
            msg = run_case(case, ctx.seed * 100 + i, 3 if ctx.quick else 8, rng, inject=(i % 3 == 2), two_phase=(i % 4 == 1))
            ctx.evaluations += 1
            if msg:
                what = "dataset %s, D=%d: %s" % ([(x["c"], x["d1"], x["d2"]) for x in case["rows"]], case["D"], msg)
                if selfpairs:
                    ctx.finding("C08/self-pair-row", what, {"kind": "dataset", "rows": case["rows"], "D": case["D"]})
                else:
                    nbad += 1
                    if nbad <= 4:
                        ctx.violation(what, {"kind": "dataset", "rows": case["rows"], "D": case["D"]})
        if not selfpairs:
            ctx.traces += len(scripts)
            ctx.sample({"dataset": scripts[3]["rows"], "D": scripts[3]["D"], "first_draw": scripts[3]["script"][0]})
    for k, D in enumerate([12, 16, 8] if ctx.quick else [8, 12, 16, 20, 12, 16, 24]):
        msg = long_chain(D, 1 + k % 2, 80 if ctx.quick else 300, ctx.seed * 10 + k)
        ctx.evaluations += 1
        if msg:
            ctx.violation("long chain, D=%d: %s" % (D, msg), {"kind": "long", "D": D})
    ctx.extra["model_drift"] = REORDERED[0]
    if REORDERED[0]:
        print("NOTE model-drift property=C08: %d draw(s) were the exact full conditional of another element of their block than the next one in the "
              "order Gibbs.tla lists them; the element order inside a block is not part of C08" % REORDERED[0])
    for D in (1, 2, 3, 4):
        for _ in range(3):
            msg = check_mvn(rng, D)
            if msg:
                ctx.violation(msg, {"kind": "mvn", "D": D})
    ctx.assumptions += ["each draw is checked to be REQUESTED with the exact conditional's parameters; that numpy's normal / gamma realise them is trusted",
                        "float32 sampler state: arguments compared at 5e-4 of the term's magnitude, stored values at 1e-5",
                        "datasets with the same treatment in both positions are the known-finding class C08/self-pair-row"]


def replay(ctx, rp):
    run(ctx)
