"""C16 - the k-per-sample policy (KPerSample.tla, TraceKPerSample.tla)."""
import json, random
import numpy as np

from batchie.data import Screen
from batchie.policies.k_per_sample import KPerSamplePlatePolicy
from batchie.scoring.main import select_next_plate, ChunkedScoresHolder
from harness.util import outcome

INVS = ["AllowedSubset", "InProgressOnly", "OpenOnlyIfKRemain", "AtMostOneIncomplete", "ZeroOrK", "NeverMoreThanK", "ExportState"]


POLICIES = {}        # ONE policy object per k for the whole run (screen after screen): nothing about an earlier screen may stick


def policy(k):
    return POLICIES.setdefault(k, RecPolicy(k))


class RecPolicy(KPerSamplePlatePolicy):
    def __init__(self, k):
        super().__init__(k)
        self.calls = []

    def filter_eligible_plates(self, batch_plates, unobserved_plates, rng):
        r = super().filter_eligible_plates(batch_plates, unobserved_plates, rng)
        self.calls.append({"batch": [int(p.plate_id) for p in batch_plates],
                           "remaining": [int(p.plate_id) for p in unobserved_plates],
                           "allowed": [int(p.plate_id) for p in r]})
        return r


def _screen(sample_of, observed, rnd, extra_sample=None):
    """plate p holds 1-2 experiments of sample sample_of[p]; names chosen so that ids equal the spec's ids"""
    tn, td, sn, pn, mask = [], [], [], [], []
    for p, s in enumerate(sample_of):
        ss = [s] if not isinstance(s, (list, tuple)) else list(s)
        for e in range(max(len(ss), 1 + (p % 2))):
            tn.append(["d%d" % (e % 3), "d%d" % ((e + p) % 3 + 3)])
            td.append([1.0, 2.0])
            sn.append("s%02d" % ss[e % len(ss)])
            pn.append("p%03d" % p)
            mask.append(bool(observed[p]))
    # make sure every sample name sorts to its id: include all sample ids 0..max via names s00.. only if present
    obs = np.array([0.5] * len(tn))
    return Screen(treatment_names=np.array(tn, dtype=str), treatment_doses=np.array(td), sample_names=np.array(sn, dtype=str),
                  plate_names=np.array(pn, dtype=str), observations=obs, observation_mask=np.array(mask, dtype=bool))


def _scores(n, best, allowed, rnd):
    """scores over all plates: `best` strictly minimal among allowed, a lower (more attractive) score on forbidden plates"""
    h = ChunkedScoresHolder(n)
    rank = []
    for p in range(n):
        if p == best:
            v = 0.0
        elif p in allowed:
            v = float(rnd.randint(1, 5))
        else:
            v = -float(rnd.randint(1, 9))
        h.add_score(p, v)
        rank.append(int(v) + 10)
    return h, rank


def _state_traces(ctx, e, rnd, all_allowed):
    """an explored state of KPerSample.tla rebuilt as a real screen + batch: single-step traces judged by TraceKPerSample"""
    so, ob, k, batch = list(e["sampleOf"]), list(e["observed"]), e["k"], list(e["batch"])
    scr = _screen(so, ob, rnd)
    base = {"kind": "walk", "k": k, "sampleOf": so, "observed": ob, "batch0": batch, "plate_samples": [], "raised": False, "flow": e["flow"]}
    out = []
    pol = policy(k)
    # the policy alone
    bp = [pl for pl in scr.plates if pl.plate_id in batch]
    rem = sorted([pl for pl in scr.plates if not pl.is_observed and pl.plate_id not in batch], key=lambda p: p.plate_id)
    st, r = outcome(pol.filter_eligible_plates, bp, rem, np.random.default_rng(0))
    ctx.evaluations += 1
    if st != "ok":
        return [dict(base, raised="policy raised: " + r)]
    want = sorted(e["allowed"])
    targets = ([-1] if not want else (want if all_allowed else [rnd.choice(want)]))
    for p in targets:
        h, rank = _scores(len(so), p, set(want), rnd)
        pol.calls.clear()
        st, r = outcome(select_next_plate, h, scr, pol, list(batch), np.random.default_rng(0))
        ctx.evaluations += 1
        if st != "ok":
            out.append(dict(base, raised="select_next_plate raised: " + r))
            continue
        allowed = pol.calls[-1]["allowed"] if pol.calls else []
        if r is None:
            out.append(dict(base, steps=[{"ev": "none", "allowed": allowed, "chosen": -1, "rank": rank}]))
        else:
            out.append(dict(base, steps=[{"ev": "select", "allowed": allowed, "chosen": int(r.plate_id), "rank": rank}]))
    return out


def _walk(rnd, npl, nsamp, k, flow=None):
    flow = flow or rnd.choice(["prospective", "retrospective"])
    so = [rnd.randrange(nsamp) for _ in range(npl)]
    # relabel samples so that ids are dense in order of first... names are s%02d of the value: ids = rank of value
    vals = sorted(set(so))
    so = [vals.index(s) for s in so]
    ob = [rnd.random() < 0.25 for _ in range(npl)]
    scr = _screen(so, ob, rnd)
    batch, steps = [], []
    pol = policy(k)
    for _ in range(npl + 1):
        h = ChunkedScoresHolder(npl)
        rank = [rnd.randint(0, 6) for _ in range(npl)]
        for p in range(npl):
            h.add_score(p, float(rank[p]))
        pol.calls.clear()
        st, r = outcome(select_next_plate, h, scr, pol, list(batch), np.random.default_rng(rnd.randrange(99)))
        if st != "ok":
            return {"raised": r, "k": k, "sampleOf": so, "observed": ob, "batch": batch}
        allowed = pol.calls[-1]["allowed"] if pol.calls else []
        if r is None:
            steps.append({"ev": "none", "allowed": allowed, "chosen": -1, "rank": rank})
            break
        steps.append({"ev": "select", "allowed": allowed, "chosen": int(r.plate_id), "rank": rank})
        batch.append(int(r.plate_id))
        if flow == "retrospective":
            # the simulation reveals the selected plate before the next one is chosen
            sel = scr.plate_ids == int(r.plate_id)
            st2, r2 = outcome(scr.set_observed, sel, scr.observations[sel])
            if st2 != "ok":
                return {"raised": "set_observed: " + r2, "k": k, "sampleOf": so, "observed": ob, "batch": batch}
    return {"kind": "walk", "k": k, "sampleOf": so, "observed": ob, "steps": steps, "plate_samples": [], "raised": False, "flow": flow, "batch0": []}


def _multi(rnd):
    """the policy is handed plates with the given sample sets - some in the batch, the rest remaining - and must refuse iff one of them
    holds more than one sample (whatever state the batch is in: empty, a sample in progress, complete)"""
    npl = rnd.randint(2, 6)
    so = [[rnd.randrange(3)] for _ in range(npl)]
    if rnd.random() < 0.7:
        so[rnd.randrange(npl)] = rnd.choice([[0, 1], [0, 1, 0], [1, 0, 0, 1], [2, 0, 2], [1, 2], [2, 1, 1]])    # mixed plates, also with equal first and last rows
    ob = [False] * npl
    scr = _screen(so, ob, rnd)
    plates = sorted(scr.plates, key=lambda p: p.plate_id)
    nb = rnd.choice([0, 0, 1, 1, 2])
    single = [p for p in plates if len(set(int(x) for x in p.sample_ids)) == 1]
    batch = rnd.sample(single, min(nb, len(single))) if rnd.random() < 0.8 else rnd.sample(plates, min(nb, len(plates)))
    rem = [p for p in plates if p not in batch]
    st, r = outcome(policy(rnd.choice([2, 2, 3])).filter_eligible_plates, batch, rem, np.random.default_rng(0))
    raised = st != "ok" and r.startswith("ValueError")
    return {"kind": "multi", "k": 2, "sampleOf": [0], "observed": [False], "steps": [], "flow": "prospective", "batch0": [],
            "plate_samples": [sorted(set(int(x) for x in p.sample_ids)) for p in plates], "raised": raised,
            "other_error": (st != "ok" and not raised)}


def run(ctx):
    from harness import tlc
    rnd = random.Random(ctx.seed)
    npl = 5 if ctx.quick else 6
    consts = {"NPlates": npl, "Samples": {0, 1, 2}, "Ks": {1, 2, 3}, "Export": False}
    r = ctx.tlc("KPerSample", tlc.cfg(constants=consts, invariants=INVS), note="exhaustive %d plates, 3 samples, k in 1..3" % npl,
                coverage=True)
    if r.violation:
        ctx.violation("design-level: %s violated" % r.violation, {"tlc": r.violation_text})
    ctx.need_coverage(r, ["Select"])
    ctx.exhaustive = True
    # (B) every reachable state of a smaller scope rebuilt as a real screen + batch
    bn = 4
    consts = {"NPlates": bn, "Samples": {0, 1, 2}, "Ks": {1, 2, 3}, "Export": True}
    r = ctx.tlc("KPerSample", tlc.cfg(constants=consts, invariants=INVS), note="export every reachable state, %d plates" % bn,
                workers=1, count=False)
    states = r.by_tag("kps")
    # the names s%02d only give ids equal to the sample values when the values present are dense from 0: keep those
    states = [s for s in states if sorted(set(s["sampleOf"])) == list(range(len(set(s["sampleOf"]))))]
    budget = 1500 if ctx.quick else 30000
    pick = states if len(states) <= budget else rnd.sample(states, budget)
    state_traces = []
    for e in pick:
        state_traces += _state_traces(ctx, e, rnd, all_allowed=not ctx.quick)
    ctx.extra["reachable_states_exported"] = len(states)
    ctx.extra["states_replayed"] = len(pick)
    ctx.sample({"spec_to_code_state": pick[len(pick) // 2]})
    # (C) random larger walks through the real select_next_plate + policy
    traces = state_traces
    for _ in range(150 if ctx.quick else 2000):
        traces.append(_walk(rnd, rnd.randint(1, 12), rnd.randint(1, 4), rnd.randint(1, 4)))
    for _ in range(80 if ctx.quick else 600):
        traces.append(_multi(rnd))
    _decide(ctx, traces)


def _decide(ctx, traces):
    from harness.tracecheck import validate
    ok = []
    for t in traces:
        if "raised" in t and isinstance(t["raised"], str):
            ctx.violation("select_next_plate raised on single-sample plates: %s" % t["raised"], {"kind": "raw", "trace": t})
        elif t.get("other_error"):
            ctx.violation("multi-sample refusal is not a ValueError", {"kind": "raw", "trace": t})
        else:
            ok.append(t)
    consts = {"NPlates": 1, "Samples": {0}, "Ks": {1}, "Export": False}
    bad = validate(ctx, "TraceKPerSample", ok, decide=None, next_="TNext", init="TInit", constraint="TInvClauses", constants=dict(consts, Strict=False),
                   chunk=6000, note="clauses of C16 on what the policy returned")
    before = ctx.traces
    drift = validate(ctx, "TraceKPerSample", ok, decide=None, next_="TNext", init="TInit", constraint="TInvClauses", constants=dict(consts, Strict=True),
                     chunk=6000, note="equality with KPerSample!Allowed")
    ctx.traces = before
    only = [d for d in drift if d[0] not in {b[0] for b in bad}]
    ctx.extra["model_drift"] = len(only)
    if only:
        print("NOTE model-drift property=C16: %d selection(s) satisfy every clause of C16 but the policy returned another set than KPerSample.tla's "
              "Allowed (first at '%s'); the transcription of the policy needs updating" % (len(only), only[0][1]))
    for i, clause in bad[:3]:
        ctx.violation("real batch construction rejected by TraceKPerSample at '%s': %s" % (clause, json.dumps(ok[i])[:500]),
                      {"kind": "raw", "trace": ok[i], "clause": clause})
    walks = [t for t in ok if t.get("kind") == "walk" and t["steps"] and t["steps"][0]["ev"] == "select"
             and len(t["steps"][0]["allowed"]) < len(t["sampleOf"])]
    if not bad and walks:
        from harness.tracecheck import selftest

        def corrupt(t):
            st0 = t["steps"][0]
            st0["chosen"] = [p for p in range(len(t["sampleOf"])) if p not in st0["allowed"]][0]
            return "the logged selection replaced by a plate the policy did not allow"
        selftest(ctx, "TraceKPerSample", walks[0], corrupt, decide=None, next_="TNext", init="TInit", constraint="TInvClauses",
                 constants=dict(consts, Strict=False))
    if ok:
        ctx.sample({"code_to_spec": ok[0]})


def replay(ctx, rp):
    rnd = random.Random(1)
    if rp["kind"] == "state":
        _decide(ctx, _state_traces(ctx, rp["state"], rnd, True))
    else:
        _decide(ctx, [rp["trace"]])
