"""C07 - distance chunks partition the work and assemble to the same matrix (DistChunks.tla)."""
import itertools, json, os, random, shutil, tempfile
import numpy as np

from batchie import distance_calculation as DC
from batchie.distance.mse import MSEDistance
from batchie.core import ThetaHolder, Theta, DistanceMetric
from harness.util import outcome, bits, Interner

ARITH_INV = ["ArithOK", "ExportArith"]
ASM_INV = ["AccNoDuplicates", "DenseIffAllChunksSeen", "DenseIsReference", "ExportAsm"]


class StubTheta(Theta):
    def __init__(self, pred):
        self.pred = np.asarray(pred, dtype=float)

    def predict_viability(self, data):
        return self.pred.copy()

    def predict_conditional_mean(self, data):
        return self.pred.copy()

    def predict_conditional_variance(self, data):
        return np.ones_like(self.pred)

    def private_parameters_dict(self):
        return {"pred": self.pred}

    @classmethod
    def from_dicts(cls, private_params, shared_params):
        return cls(private_params["pred"])


class RecMetric(DistanceMetric):
    """wraps a real metric and records which pair of prediction vectors produced which value"""

    def __init__(self, inner):
        self.inner, self.log = inner, []

    def distance(self, a, b):
        v = self.inner.distance(a, b)
        self.log.append((a.tobytes(), b.tobytes(), v))
        return v


def _cfg(tlc, maxn, maxk, loads, arith, export):
    return tlc.cfg(constants={"MaxN": maxn, "MaxChunks": maxk, "MaxLoads": loads, "Arith": arith, "Export": export},
                   invariants=ARITH_INV if arith else ASM_INV)


def _real_chunks(n, k):
    out = []
    for c in range(k):
        st, v = outcome(DC.get_lower_triangular_indices_chunk, n, c, k)
        out.append([[int(i), int(j)] for i, j in v] if st == "ok" else "raised " + v)
    return out


def _holder(preds):
    h = ThetaHolder(n_thetas=len(preds))
    for p in preds:
        h.add_theta(StubTheta(p))
    return h


def _tok(intern, v):
    b = bits(v)
    return 0 if b == bits(0.0) else intern(b)


def _assembly(n, k, order, rnd, tmp, sigmoid=True, dup=True):
    """run one real history and log it"""
    intern = Interner()
    width = 3
    base = [[rnd.uniform(-3, 3) for _ in range(width)] for _ in range(n)]
    if dup and n >= 3:
        base[n - 1] = list(base[0])          # two samples with identical predictions: a distance of exactly 0
    holder = _holder(base)
    metric = RecMetric(MSEDistance(sigmoid=sigmoid))
    files = {}
    for c in sorted(set(order)):
        st, m = outcome(DC.calculate_pairwise_distance_matrix_on_predictions, holder, metric, None, c, k)
        if st != "ok":
            return {"kind": "assembly", "raised": "compute chunk %d: %s" % (c, m), "n": n, "k": k, "order": order}
        fn = os.path.join(tmp, "c%d.h5" % c)
        m.save(fn)
        files[c] = fn
    # metric table from the recorded calls: value the metric returned for (pred_i, pred_j)
    table = {}
    for a, b, v in metric.log:
        table[(a, b)] = v
    pb = [np.asarray(p, dtype=float).tobytes() for p in base]
    mt = [[0] * n for _ in range(n)]
    inner = MSEDistance(sigmoid=sigmoid)
    for i in range(n):
        for j in range(i):
            v = table.get((pb[i], pb[j]))
            if v is None:
                v = inner.distance(np.asarray(base[i]), np.asarray(base[j]))
            mt[i][j] = _tok(intern, v)

    def proj(m):
        return [[int(m.row_indices[x]), int(m.col_indices[x]), _tok(intern, m.values[x])] for x in range(m.current_index)]
    events = []
    loaded = []
    for c in order:
        st, m = outcome(DC.ChunkedDistanceMatrix.load, files[c])
        if st != "ok":
            return {"kind": "assembly", "raised": "load: " + m, "n": n, "k": k, "order": order}
        loaded.append(m)
        st, acc = outcome(DC.ChunkedDistanceMatrix.concat, list(loaded))
        if st != "ok":
            return {"kind": "assembly", "raised": "concat: " + acc, "n": n, "k": k, "order": order}
        events.append({"ev": "load", "c": c, "file": proj(m), "acc": proj(acc)})
    st, dense = outcome(acc.to_dense)
    if st == "ok":
        d = [[_tok(intern, dense[r][c]) for c in range(n)] for r in range(n)]
        events.append({"ev": "densify", "refused": False, "dense": d})
    elif dense.startswith("ValueError"):
        events.append({"ev": "densify", "refused": True, "dense": []})
    else:
        return {"kind": "assembly", "raised": "to_dense: " + dense, "n": n, "k": k, "order": order}
    return {"kind": "assembly", "n": n, "k": k, "order": order, "metric": mt, "events": events, "chunks": _real_chunks(n, k)}


def _cli_file_order(tmp, rnd):
    """the real calculate_distance_matrix command with several sample files: entry (i, j) is the metric of the i-th and j-th sample
    in the order the files were GIVEN (the order every later step of the pipeline uses), whatever the files are called"""
    import sys
    from batchie.cli import calculate_distance_matrix as cm
    from batchie.core import ThetaHolder
    from batchie.data import Screen, ExperimentSpace
    from batchie.models.sparse_combo import SparseDrugComboMCMCSample
    scr = Screen(treatment_names=np.array([["a", "b"], ["a", "ctl"], ["b", "c"]], dtype=str), treatment_doses=np.array([[1.0, 1.0], [1.0, 0.0], [1.0, 2.0]]),
                 sample_names=np.array(["s0", "s1", "s0"], dtype=str), plate_names=np.array(["p", "p", "q"], dtype=str), control_treatment_name="ctl")
    sfn = os.path.join(tmp, "cli_screen.h5")
    scr.save_h5(sfn)
    sp = ExperimentSpace.from_screen(scr)
    g = np.random.default_rng(rnd.randrange(1 << 30))
    holders, files = [], []
    for name, k in (("thetas_10.h5", 2), ("thetas_2.h5", 3), ("thetas_1.h5", 1)):          # given order is not the order of the names
        h = ThetaHolder(n_thetas=k)
        for _ in range(k):
            h.add_theta(SparseDrugComboMCMCSample(W=g.normal(size=(sp.n_unique_samples, 1)), W0=g.normal(size=sp.n_unique_samples), V2=g.normal(size=(sp.n_unique_treatments, 1)),
                                                  V1=g.normal(size=(sp.n_unique_treatments, 1)), V0=g.normal(size=sp.n_unique_treatments), alpha=float(g.normal()), precision=1.0))
        fn = os.path.join(tmp, name)
        h.save_h5(fn)
        holders.append(h)
        files.append(fn)
    out = os.path.join(tmp, "cli_dist.h5")
    old = sys.argv
    sys.argv = ["x", "--data", sfn, "--thetas"] + files + ["--distance-metric", "MSEDistance", "--chunk-index", "0", "--n-chunks", "1", "--output", out]
    try:
        st, r = outcome(cm.main)
    finally:
        sys.argv = old
    if st != "ok":
        return "calculate_distance_matrix command raised " + r
    got = DC.ChunkedDistanceMatrix.load(out).to_dense()
    pooled = ThetaHolder.concat(holders)
    want = DC.calculate_pairwise_distance_matrix_on_predictions(pooled, MSEDistance(), scr, 0, 1).to_dense()
    if got.shape != want.shape or np.ascontiguousarray(got).tobytes() != np.ascontiguousarray(want).tobytes():
        return "calculate_distance_matrix on files given as %s: the matrix is not the one of the samples in the given order" % [os.path.basename(f) for f in files]
    return None


def _metric_event(rnd, sigmoid, m):
    intern = Interner()
    a = np.array([rnd.uniform(-6, 6) * rnd.choice([1, 1e-3, 1e3]) for _ in range(m)])
    b = np.array([rnd.uniform(-6, 6) for _ in range(m)])
    if rnd.random() < 0.4:
        b = a + np.array([rnd.uniform(-1, 1) * 10.0 ** rnd.randint(-12, -6) for _ in range(m)])     # a slowly mixing chain: nearly equal predictions
    d = MSEDistance(sigmoid=sigmoid)
    dab, dba, daa = d.distance(a, b), d.distance(b, a), d.distance(a, a.copy())
    return {"kind": "metric", "n": 0, "k": 1, "dab": _tok(intern, dab), "dba": _tok(intern, dba), "daa": _tok(intern, daa),
            "sign": "zero" if dab == 0 else ("pos" if dab > 0 else "neg-or-nan")}


def run(ctx):
    from harness import tlc
    from harness.tracecheck import validate
    rnd = random.Random(ctx.seed)
    # (A1) arithmetic, exhaustive over all n <= MaxN, 1 <= k <= MaxChunks
    maxn, maxk = (10, 50) if ctx.quick else (14, 100)
    r = ctx.tlc("DistChunks", _cfg(tlc, maxn, maxk, 0, True, True), note="chunk arithmetic n<=%d k<=%d" % (maxn, maxk), workers=1)
    if r.violation:
        ctx.violation("design-level: arithmetic violates %s" % r.violation, {"tlc": r.violation_text})
    recs = r.by_tag("chunks")
    if len(recs) != (maxn + 1) * maxk:
        raise tlc.TLCError("export incomplete: %d" % len(recs))
    # (B1) every explored (n, k): the chunks the real function returns, judged by TraceDistChunks with all other traces
    traces_b = []
    for e in recs:
        traces_b.append({"kind": "chunks", "n": e["n"], "k": e["k"], "chunks": _real_chunks(e["n"], e["k"])})
        ctx.evaluations += 1
    ctx.sample({"spec_to_code_chunks": recs[len(recs) // 3]})
    from harness.apalache import chunk_arith
    chunk_arith(ctx)            # the same Start / End operators for unbounded n and n_chunks (optional extra)
    # (A2) assembly machine, exhaustive: every order with repetition up to MaxLoads
    an, ak, al = (4, 4, 4) if ctx.quick else (5, 4, 5)
    r = ctx.tlc("DistChunks", _cfg(tlc, an, ak, al, False, False), note="assembly n<=%d k<=%d loads<=%d" % (an, ak, al), coverage=True)
    if r.violation:
        ctx.violation("design-level: assembly violates %s" % r.violation, {"tlc": r.violation_text})
    ctx.need_coverage(r, ["LoadAny", "Densify"])
    ctx.exhaustive = True
    # (B2) spec -> code: TLC's explored histories replayed into the real classes (compute, save, load, concat, to_dense)
    bn, bk, bl = (4, 3, 3) if ctx.quick else (4, 4, 4)
    r = ctx.tlc("DistChunks", _cfg(tlc, bn, bk, bl, False, True), note="assembly export", workers=1, count=False)
    hist = r.by_tag("assembly")
    tmp = tempfile.mkdtemp(prefix="verif-c07-")
    traces = traces_b
    try:
        for e in hist:
            t = _assembly(e["n"], e["k"], list(e["order"]), rnd, tmp, dup=False)
            ctx.evaluations += 1
            traces.append(t)
        ctx.extra["spec_to_code_histories"] = len(hist)
        # (C) larger random histories, real metric, zero distances, more chunks than pairs
        for _ in range(60 if ctx.quick else 600):
            n = rnd.randint(0, 9)
            k = rnd.choice([1, 2, 3, 5, 7, 11, 40])
            order = [rnd.randrange(k) for _ in range(rnd.randint(1, min(2 * k, 14)))]
            if rnd.random() < 0.5:
                order = list(range(k))
                rnd.shuffle(order)
                order += [rnd.randrange(k) for _ in range(rnd.randint(0, 3))]
            traces.append(_assembly(n, k, order, rnd, tmp, sigmoid=rnd.random() < 0.7))
        # a dozen or more posterior samples cut into more chunks than rows (chunks that lie inside one row, sample indexes of two digits),
        # every chunk loaded, so that the assembled matrix is compared entry by entry
        for n, k in ([(12, 22), (12, 33), (13, 50), (11, 55)] if ctx.quick else [(12, 22), (12, 33), (13, 50), (11, 55), (16, 120), (14, 40), (20, 97), (17, 136)]):
            order = list(range(k))
            rnd.shuffle(order)
            traces.append(_assembly(n, k, order, rnd, tmp, sigmoid=rnd.random() < 0.5, dup=False))
        # hundreds of posterior samples in small chunks (production: 10 chains x 100 samples): three of the chunk files through
        # save / load / combine, the incomplete matrix must refuse
        big_n, big_k = (260, 300) if ctx.quick else (420, 900)
        traces.append(_assembly(big_n, big_k, [big_k - 1, 0, big_k // 2], rnd, tmp, sigmoid=True, dup=False))
        for _ in range(40 if ctx.quick else 300):
            n, k = rnd.randint(0, 30), rnd.randint(1, 120)
            traces.append({"kind": "chunks", "n": n, "k": k, "chunks": _real_chunks(n, k)})
        for _ in range(60 if ctx.quick else 400):
            traces.append(_metric_event(rnd, rnd.random() < 0.7, rnd.randint(1, 40)))
        msg = _cli_file_order(tmp, rnd)
        if msg:
            ctx.violation(msg, {"kind": "cli-file-order"})
    finally:
        shutil.rmtree(tmp, ignore_errors=True)
    _decide(ctx, tlc, traces)
    ctx.assumptions += ["value identity is by IEEE bit pattern; the metric's arithmetic itself is only checked for symmetry, "
                        "sign and zero-on-identical"]


def _decide(ctx, tlc, traces):
    from harness.tracecheck import validate
    ok = []
    for t in traces:
        if "raised" in t or any(isinstance(c, str) for c in t.get("chunks", [])):
            ctx.violation("real code raised where the specification returns: %s" % json.dumps(t)[:300], {"kind": "raw", "trace": t})
        else:
            ok.append(t)
    consts = {"MaxN": 99, "MaxChunks": 999, "MaxLoads": 999, "Arith": False, "Export": False}
    bad = validate(ctx, "TraceDistChunks", ok, decide=None, next_="TNext", init="TInit", constants=dict(consts, Strict=False), note="what C07 states")
    before = ctx.traces
    small = [i for i, t in enumerate(ok) if t.get("n", 0) < 100]          # (DistChunks.tla codes a pair as 100 * i + j + 1)
    drift = validate(ctx, "TraceDistChunks", [ok[i] for i in small], decide=None, next_="TNext", init="TInit", constants=dict(consts, Strict=True),
                     note="chunk boundaries and entry order of DistChunks.tla")
    drift = [(small[i], c) for i, c in drift]
    ctx.traces = before
    only = [d for d in drift if d[0] not in {b[0] for b in bad}]
    ctx.extra["model_drift"] = len(only)
    if only:
        print("NOTE model-drift property=C07: %d execution(s) satisfy what C07 states but differ from DistChunks.tla in the chunk boundaries or the "
              "order of entries (first at '%s'); the transcription needs updating" % (len(only), only[0][1]))
    for i, clause in bad[:3]:
        ctx.violation("recorded execution rejected by TraceDistChunks at clause '%s': %s" % (clause, json.dumps(ok[i])[:400]),
                      {"kind": "raw", "trace": ok[i], "clause": clause})
    asm = [t for t in ok if t.get("kind") == "assembly" and t["events"] and not t["events"][-1]["refused"] and t["n"] >= 3]
    if not bad and asm:
        from harness.tracecheck import selftest

        def corrupt(t):
            d = t["events"][-1]["dense"]
            d[1][0], d[2][0] = d[2][0], d[1][0]
            return "two entries of the logged dense matrix swapped"
        selftest(ctx, "TraceDistChunks", asm[0], corrupt, decide=None, next_="TNext", init="TInit", constants=dict(consts, Strict=False))
    if ok:
        ctx.sample({"code_to_spec": ok[0] if len(json.dumps(ok[0])) < 3000 else {"kind": ok[0]["kind"], "n": ok[0]["n"]}})


def replay(ctx, rp):
    from harness import tlc
    rnd = random.Random(1)
    tmp = tempfile.mkdtemp(prefix="verif-c07-")
    try:
        if rp["kind"] == "chunks":
            got = _real_chunks(rp["n"], rp["k"])
            if got != [[list(p) for p in c] for c in rp["want"]]:
                ctx.violation("replay: still differs", rp)
        elif rp["kind"] == "assembly":
            _decide(ctx, tlc, [_assembly(rp["n"], rp["k"], rp["order"], rnd, tmp)])
        else:
            t = rp["trace"]
            if t.get("kind") == "assembly":
                t = _assembly(t["n"], t["k"], t["order"], rnd, tmp)
            elif t.get("kind") == "chunks":
                t = {"kind": "chunks", "n": t["n"], "k": t["k"], "chunks": _real_chunks(t["n"], t["k"])}
            _decide(ctx, tlc, [t])
    finally:
        shutil.rmtree(tmp, ignore_errors=True)
