"""C03 - see harness/lifecycle.py (Lifecycle.tla, TraceLifecycle.tla with Focus = "C03")."""
import os, random, shutil, tempfile
import numpy as np

from harness.lifecycle import run_lifecycle, replay_lifecycle
from harness.util import outcome


def big_stages(ctx):
    """C03 at study size (TLC validates histories over a dozen experiments; a retrospective study has thousands): a prepared screen of 6,500
    two-drug experiments in no particular order, and the stages derived from it - training and test halves, observed / unobserved parts,
    a revealed plate, a save / load round trip, the parts combined again.  The clause is evaluated in the harness: on every stage every
    treatment id decodes, through the PREPARED mapping, to that row's own (name, dose); the stage carries the prepared mappings (as sets of
    entries); sample ids likewise."""
    from batchie.data import Screen
    rnd = random.Random(ctx.seed + 77)
    n = 6500
    drugs = ["cmpd%02d" % i for i in range(60)]
    doses = [0.01, 0.3, 2.5, 40.0]
    tn = np.array([[rnd.choice(drugs), rnd.choice(drugs + ["ctl"])] for _ in range(n)], dtype=str)
    td = np.array([[rnd.choice(doses), rnd.choice(doses)] for _ in range(n)], dtype=float)
    td[tn == "ctl"] = 0.0
    plates = sorted(rnd.randrange(50) for _ in range(n))
    pn = np.array(["plate%02d" % p for p in plates], dtype=str)
    sn = np.array(["line%02d" % ((p * 7 + rnd.randrange(2)) % 30) for p in plates], dtype=str)
    mask = np.array([p < 6 for p in plates], dtype=bool)
    obs = np.array([0.2 + 0.0001 * (i % 5000) for i in range(n)])          # (a retrospective screen holds every outcome; the mask hides them)
    st, prep = outcome(Screen, treatment_names=tn, treatment_doses=td, sample_names=sn, plate_names=pn, observations=obs, observation_mask=mask,
                       control_treatment_name="ctl")
    if st != "ok":
        return "Screen(...) of %d experiments raised %s" % (n, prep)
    tmap = {int(c): (str(a), float(b)) for a, b, c in zip(*prep.treatment_mapping)}
    smap = {int(b): str(a) for a, b in zip(*prep.sample_mapping)}
    tset = {(str(a), float(b), int(c)) for a, b, c in zip(*prep.treatment_mapping)}

    def check(name, s):
        ctx.evaluations += 1
        if s is None:
            return "stage '%s' is missing" % name
        if {(str(a), float(b), int(c)) for a, b, c in zip(*s.treatment_mapping)} != tset:
            return "stage '%s' (%d experiments) does not carry the prepared treatment mapping" % (name, s.size)
        ids = np.asarray(s.treatment_ids).astype(int)
        for i in range(s.size):
            for a in range(ids.shape[1]):
                nm, ds = str(s.treatment_names[i, a]), float(s.treatment_doses[i, a])
                ctl = nm == "ctl" or ds <= 0
                if (ids[i, a] == -1) != ctl or (not ctl and tmap.get(int(ids[i, a])) != (nm, ds)):
                    return "stage '%s' (%d experiments): experiment %d slot %d is (%s, %g) but carries treatment id %d, which the prepared mapping decodes as %s" % (
                        name, s.size, i, a, nm, ds, ids[i, a], tmap.get(int(ids[i, a])))
            if smap.get(int(s.sample_ids[i])) != str(s.sample_names[i]):
                return "stage '%s': experiment %d of sample %s carries sample id %d (prepared: %s)" % (name, i, s.sample_names[i], int(s.sample_ids[i]), smap.get(int(s.sample_ids[i])))
        return None

    from batchie import retrospective as R
    tmp = tempfile.mkdtemp(prefix="verif-c03-")
    try:
        msg = check("prepared", prep)
        if msg:
            return msg
        for hname, hold in (("plate-balanced hold-out", R.create_plate_balanced_holdout_set_among_masked_plates), ("random hold-out", R.create_random_holdout)):
            st, halves = outcome(hold, prep, 0.1, np.random.default_rng(ctx.seed + 5))
            if st != "ok":
                return "%s of the prepared screen raised %s" % (hname, halves)
            tr, te = halves
            fn = os.path.join(tmp, "t.h5")
            steps = [("training screen", lambda: tr), ("test screen", lambda: te),
                     ("training, masked", lambda: R.mask_screen(tr)), ("training, unmasked", lambda: R.unmask_screen(tr)),
                     ("test, unmasked", lambda: R.unmask_screen(te)),
                     ("training after save / load", lambda: (tr.save_h5(fn), Screen.load_h5(fn))[1])]
            cur = {}
            for name, f in steps:
                st, s = outcome(f)
                if st != "ok":
                    return "%s: stage '%s' raised %s" % (hname, name, s)
                cur[name] = s
                msg = check("%s: %s" % (hname, name), s)
                if msg:
                    return msg
            # plates revealed one after the other on the reloaded training screen (first, last, one in the middle), saved and reloaded in between
            s = cur["training after save / load"]
            hidden = [int(p.plate_id) for p in s.plates if not p.is_observed]
            for k, pid in enumerate([hidden[0], hidden[-1], hidden[len(hidden) // 2]]):
                st, s2 = outcome(R.reveal_plates, s, [pid])
                if st != "ok":
                    return "%s: revealing plate %d raised %s" % (hname, pid, s2)
                msg = check("%s: training after reveal %d" % (hname, k + 1), s2)
                if msg:
                    return msg
                s2.save_h5(fn)
                s = Screen.load_h5(fn)
                msg = check("%s: training after reveal %d, saved and reloaded" % (hname, k + 1), s)
                if msg:
                    return msg
    finally:
        shutil.rmtree(tmp, ignore_errors=True)
    return None


def run(ctx):
    run_lifecycle(ctx, "C03")
    msg = big_stages(ctx)
    if msg:
        ctx.violation(msg, {"kind": "big-stages"})
    if not ctx.quick:      # the composed loop (real script + real command-line programs): this property's clauses of it
        from harness.pipeline import run_e2e
        run_e2e(ctx, "C03", [(2, ctx.seed), (3, ctx.seed + 1)])


def replay(ctx, rp):
    if rp.get("kind") == "big-stages":
        msg = big_stages(ctx)
        if msg:
            ctx.violation(msg, rp)
        return
    replay_lifecycle(ctx, "C03", rp)
