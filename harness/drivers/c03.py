"""C03 - see harness/lifecycle.py (Lifecycle.tla, TraceLifecycle.tla with Focus = "C03")."""
from harness.lifecycle import run_lifecycle, replay_lifecycle


def run(ctx):
    run_lifecycle(ctx, "C03")
    if not ctx.quick:      # the composed loop (real script + real command-line programs): this property's clauses of it
        from harness.pipeline import run_e2e
        run_e2e(ctx, "C03", [(2, ctx.seed), (3, ctx.seed + 1)])


def replay(ctx, rp):
    replay_lifecycle(ctx, "C03", rp)
