"""C13 - see harness/retro.py (Retro.tla, TraceRetro.tla with Focus = "C13")."""
from harness.retro import run_retro, replay_retro


def run(ctx):
    run_retro(ctx, "C13")


def replay(ctx, rp):
    replay_retro(ctx, "C13", rp)
