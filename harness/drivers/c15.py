"""C15 - combination unranking is a bijection (Unrank.tla, TraceUnrank.tla)."""
import json, random
from math import comb

from batchie.scoring import gaussian_dbal as G
import numpy as np
from harness.util import outcome


def _real(idx, n, k):
    st, v = outcome(G.get_combination_at_sorted_index, idx, n, k)
    return [int(x) for x in v] if st == "ok" else ["raised " + v]

ACTIONS = ["Binom", "Outer", "While"]
INVS = ["NoZeroDiv", "Natural", "BinomRight", "Post", "ExportDone"]


def _cfg(tlc, maxn, export, points=False):
    return tlc.cfg(constants={"MaxN": maxn, "MaxK": 4, "Export": export, "UsePoints": points}, invariants=INVS)


def run(ctx):
    from harness import tlc
    rnd = random.Random(ctx.seed)
    # (A) exhaustive: every (n, k, index) of the small scope through the register machine
    maxn = 18 if ctx.quick else 36
    r = ctx.tlc("Unrank", _cfg(tlc, maxn, False), note="exhaustive machine, n<=%d k<=4" % maxn, coverage=True,
                env={"POINTS_FILE": "none"})
    if r.violation:
        ctx.violation("design-level: TLC violates %s on the transcription of the generator" % r.violation,
                      {"tlc": r.violation_text})
    ctx.need_coverage(r, ACTIONS)
    ctx.exhaustive = True
    # (B) spec -> code: every explored (index, n, k) replayed into the real function
    bn = 13 if ctx.quick else 22
    r = ctx.tlc("Unrank", _cfg(tlc, bn, True), note="export for replay, n<=%d" % bn, workers=1, count=False,
                env={"POINTS_FILE": "none"})
    recs = r.by_tag("unrank")
    want_n = sum(comb(n, k) for n in range(bn + 1) for k in range(5))
    if len(recs) != want_n:
        raise tlc.TLCError("export incomplete: %d records, expected %d" % (len(recs), want_n))
    for e in recs:
        got = _real(e["idx"], e["n"], e["k"])
        ctx.evaluations += 1
        if got != list(e["out"]):
            ctx.violation("get_combination_at_sorted_index(%d,%d,%d) = %s, specification says %s"
                          % (e["idx"], e["n"], e["k"], got, e["out"]), {"kind": "point", "e": e, "got": got})
            break
    ctx.traces += len(recs)
    ctx.sample({"spec_to_code": recs[len(recs) // 2]})
    ctx.extra["spec_to_code_replays"] = len(recs)

    # (A') the same machine on sampled points of the production regime (large n)
    pts = []
    for _ in range(40 if ctx.quick else 400):
        k = rnd.choice([2, 3, 3, 3, 4])
        n = rnd.randint(41, {2: 3000, 3: 1500, 4: 300}[k])
        tot = comb(n, k)
        for idx in {0, tot - 1, rnd.randrange(tot), comb(rnd.randint(k, n - 1), k), comb(rnd.randint(k, n - 1), k) - 1}:
            if 0 <= idx < tot:
                pts.append({"n": n, "k": k, "idx": idx})
    r = ctx.tlc("Unrank", _cfg(tlc, 0, True, points=True), note="machine on %d sampled large-n points" % len(pts),
                files={"points.json": json.dumps(pts)}, env={"POINTS_FILE": "points.json"}, workers=1)
    if r.violation:
        ctx.violation("design-level (large n): TLC violates %s" % r.violation, {"tlc": r.violation_text})
    big = r.by_tag("unrank")
    for e in big:
        got = _real(e["idx"], e["n"], e["k"])
        ctx.evaluations += 1
        if got != list(e["out"]):
            ctx.violation("large n: get_combination_at_sorted_index(%d,%d,%d) = %s, specification says %s"
                          % (e["idx"], e["n"], e["k"], got, e["out"]), {"kind": "point", "e": e, "got": got})
            break
    ctx.traces += len(big)

    # (C) code -> spec: observations of the real code validated by TraceUnrank
    traces = []
    for _ in range(150 if ctx.quick else 1500):
        k = rnd.choice([1, 2, 3, 3, 3, 3, 4])
        n = rnd.randint(max(k, 1), {1: 2000000, 2: 60000, 3: 2343, 4: 300}[k])
        tot = comb(n, k)
        a = rnd.randint(k, n)
        for idx in {0, tot - 1, tot - 2, rnd.randrange(tot), comb(a, k), comb(a, k) - 1}:
            if 0 <= idx < tot:
                traces.append(_observe(idx, n, k))
    # beyond 32 bits (C(n,3) up to 3.6e10): the index travels as two 16-bit-base limbs and TraceUnrank recomputes the rank in limb arithmetic
    for _ in range(60 if ctx.quick else 600):
        n = rnd.randint(2344, 6000)
        tot = comb(n, 3)
        a = rnd.randint(3, n)
        for idx in {0, tot - 1, tot - 2, rnd.randrange(tot), comb(a, 3), comb(a, 3) - 1, rnd.randrange(2 ** 31, tot)}:
            if 0 <= idx < tot:
                t = _observe(idx, n, 3)
                t.update({"kind": "bigpoint", "idx": 0, "idx_hi": idx // 65536, "idx_lo": idx % 65536})
                traces.append(t)
    # the DBAL call site: which (index, triple) pairs one scoring call uses
    for n in range(3, 10 if ctx.quick else 14):
        for budget in sorted({1, comb(n, 3) // 4, comb(n, 3) // 3, comb(n, 3) - 1, comb(n, 3), comb(n, 3) + 5, 5000}):
            if budget >= 1:
                traces.append(_observe_dbal(n, budget, rnd.randrange(1 << 30)))
    # the production regime of the call site: C(n,3) far above the budget (sub-sampled triples must still be distinct)
    for n, budget in [(45, 5000), (60, 5000), (30, 800)] + ([] if ctx.quick else [(80, 5000), (120, 3000), (200, 5000)]):
        traces.append(_observe_dbal(n, budget, rnd.randrange(1 << 30)))
    # the same call site with debug logging on (--verbose)
    from harness.util import verbose_logging
    with verbose_logging():
        for n, budget in [(3, 5000), (10, 5000), (12, 100)]:
            traces.append(_observe_dbal(n, budget, rnd.randrange(1 << 30)))
    # one call on arrays of production size (a dozen 96-well plates): whatever the implementation does to bound its temporaries, the
    # triples of the call are still distinct and complete
    traces.append(_observe_dbal(30, 5000, rnd.randrange(1 << 30), P=12, E=96))
    traces.append(_observe_dbal(30, 5000, rnd.randrange(1 << 30), P=12, E=384))
    if not ctx.quick:
        traces.append(_observe_dbal(40, 5000, rnd.randrange(1 << 30), P=24, E=96))
        traces.append(_observe_dbal(25, 2300, rnd.randrange(1 << 30), P=6, E=384))
    # the scoring entry point: ONE scorer object used for several score() calls (different numbers of posterior samples, several
    # chunks of plates per call) - every chunk's triples must satisfy the clauses, whatever the object did before
    for _ in range(16 if ctx.quick else 120):
        traces += _observe_scorer_session(rnd)
    # a scorer configured with a budget above the default of the functions it calls, covering more than 5000 triples
    traces += _observe_scorer_session(rnd, ns=[34], budget=6000)
    if not ctx.quick:
        traces += _observe_scorer_session(rnd, ns=[40, 36], budget=10000)
    _validate(ctx, tlc, traces)
    ctx.assumptions += ["TLC integers are 32 bit: the register machine is explored for k=3 up to n=1500; rank / successor relations with plain "
                        "integers up to n=2343 (C(n,3) < 2^31) and with two-limb arithmetic up to n=6000 (C(n,3) < 3.6e10)"]


def _observe(idx, n, k):
    out = _real(idx, n, k)
    has_next = idx + 1 < comb(n, k)
    nxt = _real(idx + 1, n, k) if has_next else []
    return {"kind": "point", "n": n, "k": k, "idx": idx, "out": out, "nxt": nxt, "has_next": has_next,
            "raised": any(isinstance(x, str) for x in out + nxt)}


class SpyMatrix(np.ndarray):
    """the distance matrix handed to the scoring kernel; remembers with which pairs of index arrays it was read"""

    def __new__(cls, a):
        obj = np.asarray(a, dtype=float).view(cls)
        obj.calls = []
        return obj

    def __array_finalize__(self, obj):
        self.calls = getattr(obj, "calls", [])

    def __getitem__(self, key):
        if isinstance(key, tuple) and len(key) == 2 and all(isinstance(k_, np.ndarray) and k_.ndim == 1 for k_ in key):
            self.calls.append((np.array(key[0], dtype=int), np.array(key[1], dtype=int)))
        return np.asarray(super().__getitem__(key))


def used_triples(spy):
    """the triples of posterior samples a scoring call summed over, read off the three pairwise-distance look-ups d[i,j] + d[j,k] + d[i,k]
    (independent of HOW the call produced its triples); None when the call did not read the matrix that way"""
    c = spy.calls
    if len(c) < 3 or len(c) % 3:
        return None
    out = []
    for g_ in range(0, len(c), 3):          # (a kernel may work through its triples in several blocks: three look-ups per block)
        (a, b), (b2, k3), (a2, k3b) = c[g_], c[g_ + 1], c[g_ + 2]
        if not (len(a) == len(b2) == len(a2) and np.array_equal(b, b2) and np.array_equal(a, a2) and np.array_equal(k3, k3b)):
            return None
        for x, y, z in zip(a.tolist(), b.tolist(), k3.tolist()):
            t = sorted([x, y, z], reverse=True)
            out.append({"ind": comb(t[0], 3) + comb(t[1], 2) + comb(t[2], 1), "t": t})
    return out


def _observe_dbal(n, budget, seed, P=2, E=3):
    picks = []
    real = G.get_combination_at_sorted_index

    def rec(ind, nn, kk):
        t = real(ind, nn, kk)
        picks.append({"ind": int(ind), "t": [int(x) for x in t], "n": int(nn), "k": int(kk)})
        return t
    G.get_combination_at_sorted_index = rec
    try:
        rng = np.random.default_rng(seed)
        pred = rng.normal(size=(P, n, E))
        var = np.exp(rng.normal(size=(P, n, E)))
        d = np.abs(rng.normal(size=(n, n)))
        d = SpyMatrix(d + d.T)
        st, v = outcome(G.dbal_fast_gauss_scoring_vectorized, pred, var, d, rng, max_combos=budget)
    finally:
        G.get_combination_at_sorted_index = real
    ok_args = all(p["n"] == n and p["k"] == 3 for p in picks)
    used = used_triples(d)
    # "the triples used for scoring": what the call read from the distance matrix; the unranking calls it made (if it made any) are
    # checked as (index, tuple) pairs on their own
    return {"kind": "dbal", "n": n, "budget": budget, "args_ok": ok_args, "raised": st != "ok",
            "picks": used if used is not None else [{"ind": p["ind"], "t": p["t"]} for p in picks],
            "unranked": [{"ind": p["ind"], "t": p["t"]} for p in picks]}


def _observe_scorer_session(rnd, ns=None, budget=None):
    from harness.drivers.c05 import ArrTheta, Dense
    from batchie.core import ThetaHolder
    from batchie.data import Screen
    ns = ns or [rnd.randint(3, 14) for _ in range(rnd.randint(2, 4))]
    # budgets around the number of triples of one of the calls: exactly covering, just covering, just not, far below, far above
    tot = comb(rnd.choice(ns), 3)
    budget = budget or max(1, rnd.choice([tot, tot + 1, tot - 1, 2 * tot - 1, tot // 3, 3, 5000]))
    scorer = G.GaussianDBALScorer(max_chunk=rnd.choice([1, 2, 3, 50]), max_triples=budget)
    sizes = [rnd.randint(1, 3) for _ in range(rnd.randint(1, 8))]
    rows_pl = [p for p, e in enumerate(sizes) for _ in range(e)]
    N = len(rows_pl)
    scr = Screen(treatment_names=np.array([["a", "b"]] * N, dtype=str), treatment_doses=np.ones((N, 2)), sample_names=np.array(["s"] * N, dtype=str),
                 plate_names=np.array(["p%02d" % p for p in rows_pl], dtype=str))
    plates = {p: scr.get_plate(p) for p in range(len(sizes))}
    out = []
    real_u, real_f = G.get_combination_at_sorted_index, G.dbal_fast_gauss_scoring_vectorized
    cur = []

    def rec(ind, nn, kk):
        t = real_u(ind, nn, kk)
        cur.append({"ind": int(ind), "t": [int(x) for x in t], "n": int(nn), "k": int(kk)})
        return t

    def fast(*a, **kw):
        del cur[:]
        a = list(a)
        if "distance_matrix" in kw:
            spy = kw["distance_matrix"] = SpyMatrix(kw["distance_matrix"])
        else:
            spy = a[2] = SpyMatrix(a[2])
        n = int(spy.shape[0])
        try:
            return real_f(*a, **kw)
        finally:
            # (the budget is the one the scorer was configured with, not whatever it hands down per chunk)
            used = used_triples(spy)
            out.append({"kind": "dbal", "n": n, "budget": budget, "raised": False, "args_ok": all(p["n"] == n and p["k"] == 3 for p in cur),
                        "picks": used if used is not None else [{"ind": p["ind"], "t": p["t"]} for p in cur],
                        "unranked": [{"ind": p["ind"], "t": p["t"]} for p in cur]})
    G.get_combination_at_sorted_index, G.dbal_fast_gauss_scoring_vectorized = rec, fast
    try:
        rng = np.random.default_rng(rnd.randrange(1 << 30))
        for n in ns:
            h = ThetaHolder(n_thetas=n)
            for _ in range(n):
                h.add_theta(ArrTheta(rng.normal(size=N), np.exp(rng.normal(size=N))))
            d = np.abs(rng.normal(size=(n, n)))
            st, v = outcome(scorer.score, plates, Dense(d + d.T), h, rng, False)
            if st != "ok":
                out.append({"kind": "dbal", "n": n, "budget": budget, "raised": True, "args_ok": True, "picks": [], "unranked": [], "err": str(v)[:200]})
    finally:
        G.get_combination_at_sorted_index, G.dbal_fast_gauss_scoring_vectorized = real_u, real_f
    return out


def _validate(ctx, tlc, traces):
    from harness.tracecheck import validate
    for t in traces:
        if t.get("raised"):
            ctx.violation("real code raised where the specification returns a tuple: %s" % json.dumps(t)[:300],
                          {"kind": "trace", "trace": t})
            return
    bad = validate(ctx, "TraceUnrank", traces, decide="Decide")
    for tid, clause in bad[:3]:
        ctx.violation("observed call rejected by TraceUnrank at clause '%s': %s" % (clause, json.dumps(traces[tid])[:300]),
                      {"kind": "trace", "trace": traces[tid], "clause": clause})
    for t in traces:
        if t["kind"] == "dbal" and not t["args_ok"]:
            ctx.violation("DBAL unranks with arguments other than (index, n_thetas, 3)", {"kind": "trace", "trace": t})
            break
    if not bad:
        from harness.tracecheck import selftest

        def corrupt(t):
            t["out"][0] += 1
            return "first element of a returned tuple incremented"
        selftest(ctx, "TraceUnrank", [t for t in traces if t["kind"] == "point" and t["k"] >= 1][0], corrupt, decide="Decide")
    ctx.sample({"code_to_spec": traces[0]})
    ctx.sample({"code_to_spec": {k: (v if k != "picks" else v[:3]) for k, v in traces[-1].items()}})


def replay(ctx, rp):
    from harness import tlc
    if rp["kind"] == "point":
        e = rp["e"]
        got = _real(e["idx"], e["n"], e["k"])
        if got != list(e["out"]):
            ctx.violation("replay: still differs: %s vs %s" % (got, e["out"]), rp)
    else:
        t = rp["trace"]
        t2 = _observe(t["idx"], t["n"], t["k"]) if t["kind"] == "point" else _observe_dbal(t["n"], t["budget"], 1)
        _validate(ctx, tlc, [t2])
