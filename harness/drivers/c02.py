"""C02 - see harness/lifecycle.py (Lifecycle.tla, TraceLifecycle.tla with Focus = "C02")."""
from harness.lifecycle import run_lifecycle, replay_lifecycle


def run(ctx):
    run_lifecycle(ctx, "C02")


def replay(ctx, rp):
    replay_lifecycle(ctx, "C02", rp)
