"""C18 - randomised steps are deterministic in their inputs and the given generator/seed (Functional.tla)."""
import hashlib, json, os, random, shutil, sys, tempfile
import numpy as np

from batchie import retrospective as R, sampling
from batchie.core import ThetaHolder
from batchie.data import Screen, ExperimentSpace
from batchie.distance_calculation import ChunkedDistanceMatrix
from batchie.models.sparse_combo import SparseDrugCombo, SparseDrugComboMCMCSample
from batchie.models.sparse_combo_interaction import SparseDrugComboInteraction
from batchie.policies.k_per_sample import KPerSamplePlatePolicy
from batchie.scoring import gaussian_dbal as G
from batchie.scoring.main import score_chunk, select_next_plate, ChunkedScoresHolder
from batchie.scoring.rand import RandomScorer
from harness.retro import random_rscreen, OPS
from harness.util import outcome, Interner, bits


def gstate():
    s = np.random.get_state()
    # (the process-global generators: numpy's legacy one and the standard library's)
    return hashlib.sha1(s[1].tobytes() + repr(s[2:]).encode() + repr(random.getstate()).encode()).hexdigest()[:16]


def scr_digest(s):
    h = hashlib.sha1()
    for a in (s.treatment_doses, s.observations, s.observation_mask):
        h.update(np.ascontiguousarray(a).tobytes())
    h.update("|".join(s.treatment_names.ravel().tolist() + s.sample_names.tolist() + s.plate_names.tolist()).encode("utf-8"))
    return h.hexdigest()[:16]


def theta_digest(th):
    h = hashlib.sha1()
    for k in sorted(th.__dict__):
        v = th.__dict__[k]
        if isinstance(v, np.ndarray):
            h.update(v.tobytes())
        elif isinstance(v, dict):
            h.update(repr(sorted((int(a), int(b), bits(x)) for (a, b), x in v.items())).encode())
        else:
            h.update(bits(v).encode())
    return h.hexdigest()[:16]


def small_screen(seed, observed_frac=0.5):
    rnd = random.Random(seed)
    rs = random_rscreen(rnd, 10, 2, 4, p_obs=observed_frac, single=0.3, one_sample_per_plate=True)
    return rs


# operations that take a generator but (on the current tree) never draw from it
def pinned(f):
    """f with the two causes of the known finding C18/gibbs-global-rng removed: the process-global numpy generator is seeded from the
    seed argument (and restored afterwards), the MVN draws of the legacy samplers use that generator instead of a fresh unseeded one"""
    import functools
    from batchie.fast_mvn import sample_mvn_from_precision as real
    from batchie.models import sparse_combo as SC, sparse_combo_interaction as SI
    from harness.drivers.c04 import GlobalRng

    def g(seed):
        saved_state = np.random.get_state()
        saved = (SC.sample_mvn_from_precision, SI.sample_mvn_from_precision)
        SC.sample_mvn_from_precision = SI.sample_mvn_from_precision = functools.partial(real, rng=GlobalRng())
        np.random.seed(seed % (2 ** 32))
        try:
            return f(seed)
        finally:
            SC.sample_mvn_from_precision, SI.sample_mvn_from_precision = saved
            np.random.set_state(saved_state)
    return g


DETERMINISTIC = {"train:sampling.sample(model whose reset restores its construction-time generator)"} | {"retro:mergemin", "retro:mergetb", "retro:npl", "select:policy", "cli:select_next_plate", "mvn:sample_mvn_from_precision(singular)"}


def build_ops(tmp, rnd):
    """name -> (callable(seed) -> output digest, input digest, known-finding key or None)"""
    ops = {}
    # generators / smoothers / cover / hold-outs
    for name, params in (("seg", (3,)), ("pair", (1, 0)), ("perm", (0,)), ("fixed", (2,)), ("optimal", ()), ("mergemin", (3,)),
                         ("mergetb", (1,)), ("npl", (1,)), ("ensemble", (3, 1, 1))):
        # an input on which the operation actually consumes randomness (its output moves with the seed), so a generator that is
        # silently replaced is visible; the purely deterministic merge smoothers keep the first candidate
        rs = None
        for attempt in range(2 if "retro:" + name in DETERMINISTIC else 40):
            cand = small_screen(rnd.randrange(10 ** 6)) if attempt < 5 else random_rscreen(random.Random(rnd.randrange(10 ** 6)), 24, 2, 5, p_obs=0.2, single=0.3, one_sample_per_plate=True)
            rs = rs or cand
            outs = set()
            for sd in (1, 2, 3, 4):
                obj = OPS[name](params)
                st, o = outcome(obj.generate_plates if name in ("seg", "pair", "perm") else obj.smooth_plates, cand.screen(), np.random.default_rng(sd))
                outs.add(scr_digest(o) if st == "ok" else "raised")
            # the pairwise generator additionally gets single-agent experiments of at least two samples to distribute
            enough = name != "pair" or len({r_[0] for r_ in cand.rows if not r_[3] and sum(1 for t_ in r_[1] if t_ == 0) == 1}) >= 2
            if len(outs) > 1 and "raised" not in outs and enough:
                rs = cand
                break
        scr0 = rs.screen()

        # ONE object per operation, used for every repetition: state kept on the instance between calls would show
        def f(seed, name=name, params=params, rs=rs, obj=OPS[name](params)):
            fn = obj.generate_plates if name in ("seg", "pair", "perm") else obj.smooth_plates
            return scr_digest(fn(rs.screen(), np.random.default_rng(seed)))
        ops["retro:" + name] = (f, scr_digest(scr0) + repr(params), None)
    # a screen on which the hold-outs and the chunk scorer have a choice to make (at least two unobserved plates of two or more rows)
    rs = None
    for attempt in range(60):
        cand = small_screen(rnd.randrange(10 ** 6)) if attempt < 10 else random_rscreen(random.Random(rnd.randrange(10 ** 6)), 16, 2, 4, p_obs=0.25, single=0.3, one_sample_per_plate=True)
        rs = rs or cand
        sc_ = cand.screen()
        un = [p for p in sc_.plates if not p.is_observed]
        if len(un) >= 2 and sum(1 for p in un if p.size >= 2) >= 2 and any(p.is_observed for p in sc_.plates):
            rs = cand
            break
    cover = R.SparseCoverPlateGenerator(True)
    ops["retro:cover"] = (lambda seed, rs=rs: scr_digest(cover.generate_and_unmask_initial_plate(rs.screen(all_observed=True), np.random.default_rng(seed))),
                          scr_digest(rs.screen()), None)
    ops["retro:holdout"] = (lambda seed, rs=rs: "".join(scr_digest(x) for x in R.create_plate_balanced_holdout_set_among_masked_plates(rs.screen(), 0.5, np.random.default_rng(seed))),
                            scr_digest(rs.screen()) + "0.5", None)
    ops["retro:random_holdout"] = (lambda seed, rs=rs: "".join(scr_digest(x) for x in R.create_random_holdout(rs.screen(), 0.4, np.random.default_rng(seed))),
                                   scr_digest(rs.screen()) + "0.4", None)
    # random scorer, DBAL triple sub-sampling, policy filtering / selection
    scr = rs.screen()
    rscorer = RandomScorer()
    ops["score:random"] = (lambda seed, scr=scr: repr(sorted((int(k), bits(v)) for k, v in
                           rscorer.score({p.plate_id: p for p in scr.plates}, None, None, np.random.default_rng(seed), False).items())), scr_digest(scr), None)
    g = np.random.default_rng(5)
    n = 12
    pm, pv = g.normal(size=(3, n, 4)), np.exp(g.normal(size=(3, n, 4)))
    d = np.abs(g.normal(size=(n, n)))
    d = d + d.T
    ops["score:dbal-subsampled-triples"] = (lambda seed: np.ascontiguousarray(G.dbal_fast_gauss_scoring_vectorized(pm.copy(), pv.copy(), d.copy(), np.random.default_rng(seed), max_combos=40)).tobytes().hex(),
                                            "dbal-n12-budget40", None)

    # the scorer entry point over several sub-groups of plates in the sub-sampling regime, with posterior samples whose predictions take
    # a different (tiny) time in every run: the result depends on inputs and seed, not on how the work happens to be scheduled
    from harness.drivers.c05 import ArrTheta, real_matrix
    import time as _time
    tick = [0]

    class SlowTheta(ArrTheta):
        def predict_conditional_mean(self, data):
            tick[0] += 1
            _time.sleep(0.0005 * ((tick[0] * 7919) % 5))
            return super().predict_conditional_mean(data)
    gg = np.random.default_rng(9)
    sizes_ = [2, 3, 1, 2, 2]
    rows_pl = [p for p, e_ in enumerate(sizes_) for _ in range(e_)]
    N_ = len(rows_pl)
    sscr = Screen(treatment_names=np.array([["a", "b"]] * N_, dtype=str), treatment_doses=np.ones((N_, 2)), sample_names=np.array(["s"] * N_, dtype=str),
                  plate_names=np.array(["p%02d" % p for p in rows_pl], dtype=str))
    hth = ThetaHolder(n_thetas=6)
    for _ in range(6):
        hth.add_theta(SlowTheta(gg.normal(size=N_), np.exp(gg.normal(size=N_))))
    dd = np.abs(gg.normal(size=(6, 6)))
    dmat = real_matrix(dd + dd.T)
    dscorer = G.GaussianDBALScorer(max_chunk=1, max_triples=5)
    ops["score:GaussianDBALScorer(5 sub-groups, sub-sampled triples)"] = (
        lambda seed: repr(sorted((int(k), bits(float(v))) for k, v in dscorer.score({p: sscr.get_plate(p) for p in range(len(sizes_))}, dmat, hth, np.random.default_rng(seed), False).items())),
        "dbal-scorer-subgroups", None)

    def sel(seed, scr=scr):
        h = ChunkedScoresHolder(scr.n_plates)
        for p in range(scr.n_plates):
            h.add_score(p, 0.25)           # every plate has the same score: whichever way the tie is broken, it is broken reproducibly
        r = select_next_plate(h, scr, KPerSamplePlatePolicy(1), [], np.random.default_rng(seed))
        return "none" if r is None else str(int(r.plate_id))
    ops["select:policy"] = (sel, scr_digest(scr), None)
    ops["score_chunk:random"] = (lambda seed, scr=scr: np.ascontiguousarray(score_chunk(RandomScorer(), None, scr, None, np.random.default_rng(seed), False, 1, 0, None).scores).tobytes().hex(),
                                 scr_digest(scr), None)
    # the multivariate normal draw with the generator it is given (the samplers call it without one: known finding), every dimension
    from batchie.fast_mvn import sample_mvn_from_precision
    for dim in (1, 2, 3):
        A = np.random.default_rng(dim).normal(size=(dim, dim))
        Q, b = A @ A.T + np.eye(dim), np.arange(1.0, dim + 1.0)
        ops["mvn:sample_mvn_from_precision(dim=%d)" % dim] = (
            lambda seed, Q=Q, b=b: np.ascontiguousarray(sample_mvn_from_precision(Q.copy(), mu_part=b.copy(), rng=np.random.default_rng(seed))).tobytes().hex(),
            "mvn-%d" % dim, None)
    def mvn_singular(seed):
        # a precision matrix that is not positive definite: whatever the function does with it (it refuses), it does it reproducibly
        Qs = np.array([[1.0, 1.0], [1.0, 1.0]])
        st, o = outcome(sample_mvn_from_precision, Qs, mu_part=np.array([1.0, 2.0]), rng=np.random.default_rng(seed))
        return "refused" if st != "ok" else np.ascontiguousarray(o).tobytes().hex()
    ops["mvn:sample_mvn_from_precision(singular)"] = (mvn_singular, "mvn-singular", None)
    # sampling.sample hands a generator to the model: a model that actually draws from it (the shipped Gibbs samplers do not: known finding)
    from harness.drivers.c17 import CountMCMC

    class Drawing(CountMCMC):
        def step(self):
            super().step()
            self.drawn = getattr(self, "drawn", []) + [float(self.rng.normal())]

    class Restoring(Drawing):
        """reset_model() restores the WHOLE initial state, generator included (the one the model was constructed with, unseeded) -
        what the interface documents; the generator handed over by sampling.sample must be the one in effect when the chain runs"""

        def __init__(self):
            super().__init__()
            self._initial_rng = np.random.default_rng()
            self._rng = self._initial_rng

        def reset_model(self):
            super().reset_model()
            self._rng = self._initial_rng

    def sample_restoring(seed):
        m = Restoring()
        sampling.sample(m, ThetaHolder(n_thetas=2), seed, n_chains=2, chain_index=1, n_burnin=1, thin=1)
        return repr([bits(x) for x in m.drawn])
    ops["train:sampling.sample(model whose reset restores its construction-time generator)"] = (sample_restoring, "restoring-model", None)

    def sample_stub(seed):
        m = Drawing()
        sampling.sample(m, ThetaHolder(n_thetas=2), seed, n_chains=2, chain_index=1, n_burnin=1, thin=1)
        return repr([bits(x) for x in m.drawn])
    ops["train:sampling.sample(model drawing from the generator it is handed)"] = (sample_stub, "stub-model", None)
    # the variational branch of sampling.sample (the grid model takes it): a stub that draws from the generator it is handed
    from harness.drivers.c17 import CountVI

    class DrawingVI(CountVI):
        def sample(self, num_samples):
            self.drawn = [float(self.rng.normal()) for _ in range(num_samples)]
            return super().sample(num_samples)

    def sample_vi(seed):
        m = DrawingVI()
        sampling.sample(m, ThetaHolder(n_thetas=2), seed, n_chains=2, chain_index=1, n_burnin=1, thin=1)
        return repr([bits(x) for x in m.drawn])
    ops["train:sampling.sample(variational model drawing from the generator it is handed)"] = (sample_vi, "stub-vi-model", None)
    # model training through sampling.sample
    obs_scr = small_screen(7, observed_frac=1.0).screen(all_observed=True)
    for mname, cls, kw in (("SparseDrugCombo", SparseDrugCombo, {}), ("SparseDrugComboInteraction", SparseDrugComboInteraction, {})):
        def train(seed, cls=cls, kw=kw):
            m = cls(experiment_space=ExperimentSpace.from_screen(obs_scr), n_embedding_dimensions=2, **kw)
            m.add_observations(obs_scr)
            h = sampling.sample(m, ThetaHolder(n_thetas=2), seed, n_chains=2, chain_index=1, n_burnin=2, thin=2)
            return "".join(theta_digest(t) for t in h.thetas)
        ops["train:" + mname] = (train, scr_digest(obs_scr), "C18/gibbs-global-rng")
        # the known finding names its cause (draws from the global generator and from unseeded MVN generators).  With exactly those two
        # pinned, training is reproducible - anything else that makes it differ is a DIFFERENT violation and is reported
        ops["train:%s [global generator and MVN generator pinned]" % mname] = (pinned(train), scr_digest(obs_scr), None)
    # command-line steps given --seed
    sfn = os.path.join(tmp, "in.screen.h5")
    full = small_screen(11, observed_frac=1.0).screen(all_observed=True)
    full.save_h5(sfn)

    def cli(mod, argv):
        old = sys.argv
        sys.argv = ["x"] + argv
        try:
            mod.main()
        finally:
            sys.argv = old

    def prepare(seed):
        from batchie.cli import prepare_retrospective_simulation as m
        a, b = os.path.join(tmp, "tr.h5"), os.path.join(tmp, "te.h5")
        cli(m, ["--data", sfn, "--training-output", a, "--test-output", b, "--plate-generator", "SampleSegregatingPermutationPlateGenerator",
                "--plate-generator-param", "max_plate_size=3", "--holdout-fraction", "0.5", "--seed", str(seed)])
        return scr_digest(Screen.load_h5(a)) + scr_digest(Screen.load_h5(b))
    ops["cli:prepare_retrospective_simulation"] = (prepare, scr_digest(full), None)
    part = small_screen(13).screen()
    pfn = os.path.join(tmp, "part.screen.h5")
    part.save_h5(pfn)

    def train_cli(seed):
        from batchie.cli import train_model as m
        out = os.path.join(tmp, "th.h5")
        cli(m, ["--data", pfn, "--model", "SparseDrugCombo", "--model-param", "n_embedding_dimensions=2", "--output", out, "--n-samples", "2",
                "--n-burnin", "1", "--thin", "1", "--n-chains", "1", "--chain-index", "0", "--seed", str(seed)])
        return "".join(theta_digest(t) for t in ThetaHolder.load_h5(out).thetas)
    ops["cli:train_model"] = (train_cli, scr_digest(part), "C18/gibbs-global-rng")
    ops["cli:train_model [global generator and MVN generator pinned]"] = (pinned(train_cli), scr_digest(part), None)
    # thetas + distance matrix files for calculate_scores
    sp = ExperimentSpace.from_screen(part)
    h = ThetaHolder(n_thetas=3)
    gg = np.random.default_rng(3)
    for _ in range(3):
        h.add_theta(SparseDrugComboMCMCSample(W=gg.normal(size=(sp.n_unique_samples, 2)), W0=gg.normal(size=sp.n_unique_samples), V2=gg.normal(size=(sp.n_unique_treatments, 2)),
                                              V1=gg.normal(size=(sp.n_unique_treatments, 2)), V0=gg.normal(size=sp.n_unique_treatments), alpha=0.1, precision=1.0))
    tfn, dfn = os.path.join(tmp, "thetas.h5"), os.path.join(tmp, "dist.h5")
    h.save_h5(tfn)
    dm = ChunkedDistanceMatrix(3)
    for i, j, v in ((1, 0, 0.5), (2, 0, 0.25), (2, 1, 0.75)):
        dm.add_value(i, j, v)
    dm.save(dfn)

    def scores_cli(seed):
        from batchie.cli import calculate_scores as m
        out = os.path.join(tmp, "scores.h5")
        cli(m, ["--data", pfn, "--thetas", tfn, "--distance-matrix", dfn, "--scorer", "RandomScorer", "--output", out, "--seed", str(seed)])
        hh = ChunkedScoresHolder.load_h5(out)
        return np.ascontiguousarray(hh.scores).tobytes().hex() + repr(list(hh.plate_ids))
    ops["cli:calculate_scores"] = (scores_cli, scr_digest(part) + "RandomScorer", None)

    def select_cli(seed):
        from batchie.cli import select_next_plate as m
        hh = ChunkedScoresHolder(part.n_plates)
        for p in range(part.n_plates):
            hh.add_score(p, float((p * 7) % 2))          # (many ties)
        sc, out = os.path.join(tmp, "sc.h5"), os.path.join(tmp, "sel.txt")
        hh.save_h5(sc)
        cli(m, ["--data", pfn, "--scores", sc, "--output", out, "--policy", "KPerSamplePlatePolicy", "--policy-param", "k=1", "--seed", str(seed)])
        return open(out).read().strip()
    ops["cli:select_next_plate"] = (select_cli, scr_digest(part), None)
    return ops


def child_main():
    """run in a fresh interpreter (its own PYTHONHASHSEED): digest of every non-training operation for seed 100"""
    import logging, warnings
    logging.disable(logging.CRITICAL)
    warnings.filterwarnings("ignore")
    tmp = tempfile.mkdtemp(prefix="verif-c18c-")
    try:
        ops = build_ops(tmp, random.Random(int(sys.argv[2])))
        out = {}
        warm = int(sys.argv[3]) if len(sys.argv) > 3 else 0
        for name, (f, indig, known) in sorted(ops.items()):
            if known:
                continue
            if warm:
                outcome(f, 100 + warm)          # this process has already done the same operation with ANOTHER seed: no trace of it may remain
            st, o = outcome(f, 100)
            out[name] = [indig, o if st == "ok" else "raised:" + o]
        print("CHILD-RESULT " + json.dumps(out))
    finally:
        shutil.rmtree(tmp, ignore_errors=True)


def across_processes(ctx, it):
    """the same operations repeated in separate interpreter processes with different string-hash seeds"""
    import subprocess
    events = []
    env = dict(os.environ)
    for hs in ("1", "2", "3") if ctx.quick else ("1", "2", "3", "4", "5", "6"):
        env["PYTHONHASHSEED"] = hs
        p = subprocess.run([sys.executable, "-c", "import sys; sys.argv=['c', 'child', '%d', '%d']; from harness.drivers import c18; c18.child_main()" % (ctx.seed, int(hs) - 1)],
                           env=env, stdout=subprocess.PIPE, stderr=subprocess.DEVNULL, text=True, timeout=600)
        line = [l for l in p.stdout.splitlines() if l.startswith("CHILD-RESULT ")]
        if not line:
            raise RuntimeError("child process produced no result (rc=%s)" % p.returncode)
        for name, (indig, o) in json.loads(line[0][len("CHILD-RESULT "):]).items():
            events.append({"ev": "call", "what": name + " (separate interpreter processes)", "key": it((name, indig, 100, "proc")), "out": it(o), "g0": 0, "g1": 0})
    return {"g0": 0, "events": events}


def run(ctx):
    from harness import tlc
    from harness.tracecheck import validate
    rnd = random.Random(ctx.seed)
    # (A) the monitor itself: a conforming system never trips it, for every interleaving of calls and perturbations
    r = ctx.tlc("Functional", tlc.cfg(constants={"Keys": {1, 2, 3}, "Outs": {1, 2, 3}, "Globs": {1, 2}}, invariants=["AlwaysOk"]),
                note="memo-table monitor: conforming calls interleaved with perturbations of the global state", coverage=True)
    if r.violation:
        ctx.violation("design-level: Functional violates %s" % r.violation, {"kind": "tlc", "tlc": r.violation_text[:2000]})
    ctx.need_coverage(r, ["Call", "Perturb"])
    tmp = tempfile.mkdtemp(prefix="verif-c18-")
    saved = np.random.get_state()
    try:
        ops = build_ops(tmp, rnd)
        it = Interner()
        traces, meta, changed = [], [], {}
        reps = 2 if ctx.quick else 6
        for name, (f, indig, known) in sorted(ops.items()):
            for rep in range(reps):
                seed = (0, 100, 101, 7, 2 ** 31 - 1, 12345)[rep % 6] if rep < 6 else 100 + rep        # 0 is a seed like any other
                events = []
                np.random.seed(rnd.randrange(2 ** 31))
                outs = []
                raised = None
                for run_i in range(3):
                    # between runs somebody else reseeds / advances the global generator
                    np.random.seed(rnd.randrange(2 ** 31))
                    random.seed(rnd.randrange(2 ** 31))
                    for _ in range(rnd.randrange(4)):
                        np.random.normal()
                        random.random()
                    events.append({"ev": "perturb", "g": it(gstate())})
                    sd = seed if run_i < 2 else seed + 17
                    g0 = gstate()
                    st, out = outcome(f, sd)
                    g1 = gstate()
                    if st != "ok":
                        raised = out
                        break
                    outs.append(out)
                    events.append({"ev": "call", "what": name, "key": it((name, indig, sd)), "out": it(out), "g0": it(g0), "g1": it(g1)})
                ctx.evaluations += 1
                if raised:
                    ctx.violation("%s raised: %s" % (name, raised), {"kind": "op", "op": name})
                    break
                changed[name] = changed.get(name, False) or (outs[2] != outs[0])
                traces.append({"g0": events[0]["g"], "events": events})
                meta.append((name, known))
        bad = validate(ctx, "TraceFunctional", traces, decide=None, next_="TNext", init="TInit",
                       constants={"Keys": {0}, "Outs": {0}, "Globs": {0}, "CheckGlobal": True})
        accepted = [t for i, t in enumerate(traces) if i not in {b[0] for b in bad}]
        if accepted:
            from harness.tracecheck import selftest

            def corrupt(t):
                calls = [e for e in t["events"] if e["ev"] == "call"]
                calls[1]["out"] = calls[1]["out"] + 1000
                return "output token of the second of two identical runs changed"
            selftest(ctx, "TraceFunctional", accepted[0], corrupt, decide=None, next_="TNext", init="TInit",
                     constants={"Keys": {0}, "Outs": {0}, "Globs": {0}, "CheckGlobal": True})
        reported = set()
        for i, clause in bad:
            name, known = meta[i]
            if (name, clause) in reported:
                continue
            reported.add((name, clause))
            what = "%s: %s (two runs with identical inputs and seed, global numpy generator reseeded differently in between)" % (name, clause)
            if known:
                ctx.finding(known, what, {"kind": "op", "op": name, "clause": clause})
            else:
                ctx.violation(what, {"kind": "op", "op": name, "clause": clause})
        # repeated in fresh interpreter processes (different PYTHONHASHSEED): iteration over sets / dicts of strings must not leak
        pt = across_processes(ctx, Interner())
        badp = validate(ctx, "TraceFunctional", [pt], decide=None, next_="TNext", init="TInit",
                        constants={"Keys": {0}, "Outs": {0}, "Globs": {0}, "CheckGlobal": False}, note="across interpreter processes")
        for i, clause in badp:
            ctx.violation("%s" % clause, {"kind": "across-processes", "clause": clause})
        ctx.extra["operations"] = sorted(ops)
        ctx.extra["output_changes_with_seed"] = changed
        inert = sorted(n for n, c in changed.items() if not c and n not in DETERMINISTIC)
        if inert and not ctx.violations:
            raise tlc.TLCError("vacuity guard: the output of %s never changed with the seed, its randomness was not exercised" % inert)
        ctx.sample({"operation": meta[0][0], "events": traces[0]["events"]})
    finally:
        np.random.set_state(saved)
        shutil.rmtree(tmp, ignore_errors=True)
    ctx.assumptions += ["output identity = digest of the logical content (screens: names, doses, values, mask; samples: parameter bytes; scores: bytes)",
                        "the variational model (torch / pyro global generator) is outside the anchors and not driven"]


def replay(ctx, rp):
    run(ctx)
