"""C14 - subset and plate views are exact row selections with set-algebra semantics (Views.tla, TraceViews.tla)."""
import json, random
import numpy as np

from batchie.data import Screen, ScreenSubset, filter_dataset_to_unique_treatments
from harness.util import outcome, bits, Interner

ACTIONS = ["Subset", "Combine", "Concat3", "Invert", "ByMask", "GetPlate", "FilterUnique", "ToScreen"]


class VFixture:
    """rows: (sample idx, (t1, t2) treatment idx with 0 = control, plate idx, observed plate?)"""

    def __init__(self, rows, name, names=("ctl", "A", "b", "é")):
        self.rows, self.name, self.tn = rows, name, names
        self.ci, self.ki, self.pi, self.ii, self.ei = Interner(), Interner(), Interner(), Interner(), Interner()

    def screen(self):
        tn = np.array([[self.tn[t] for t in r[1]] for r in self.rows], dtype=str)
        td = np.array([[0.0 if t == 0 else 1.0 + 0.5 * t for t in r[1]] for r in self.rows], dtype=float)
        sn = np.array(["s%d" % r[0] for r in self.rows], dtype=str)
        pn = np.array(["p%d" % r[2] for r in self.rows], dtype=str)
        obs = np.array([0.1 + 0.07 * i for i in range(len(self.rows))])
        mask = np.array([bool(r[3]) for r in self.rows])
        return Screen(treatment_names=tn, treatment_doses=td, sample_names=sn, plate_names=pn, observations=obs, observation_mask=mask,
                      control_treatment_name="ctl")

    # per-row tokens of any ScreenBase (parent or view), from its OWN attribute arrays
    def tokens(self, s):
        n = s.size
        c, k, pid, ids = [], [], [], []
        for i in range(n):
            names = tuple(str(x) for x in s.treatment_names[i])
            doses = tuple(bits(x) for x in s.treatment_doses[i])
            c.append(self.ci((str(s.sample_names[i]), names, doses, bits(s.observations[i]), bool(s.observation_mask[i]))))
            k.append(self.ki((str(s.sample_names[i]), names, doses)))
            ids.append(self.ii((int(s.sample_ids[i]), tuple(int(x) for x in s.treatment_ids[i]), int(s.plate_ids[i]))))
            pid.append(int(s.plate_ids[i]))
        return c, k, pid, ids

    def ste_tokens(self, s):
        """per-row tokens of the derived per-experiment attribute single_treatment_effects (0 when it is not available)"""
        st, a = outcome(lambda: s.single_treatment_effects)
        if st != "ok":
            return [9999] * s.size
        if a is None:
            return [0] * s.size
        return [self.ei(tuple(bits(x) for x in np.ravel(a[i]))) for i in range(s.size)]

    def to_json(self):
        s = self.screen()
        c, k, pid, ids = self.tokens(s)
        # content tokens must also identify the plate *name*
        return json.dumps({"c": c, "k": k, "mask": [bool(x) for x in s.observation_mask], "pid": pid, "ids": ids})


class VWorld:
    def __init__(self, fx):
        self.fx = fx
        self.parents = [fx.screen(), fx.screen()]
        for p in self.parents:
            fx.tokens(p)
        self.pool = [self.parents[0].subset(np.ones(self.parents[0].size, dtype=bool)),
                     self.parents[1].subset(np.ones(self.parents[1].size, dtype=bool))]
        self.events, self.raised = [], None

    def par_index(self, v):
        for i, p in enumerate(self.parents):
            if v.screen is p:
                return i + 1
        return 0

    def proj(self):
        out = []
        for v in self.pool:
            sel = [i + 1 for i, b in enumerate(v.selection_vector) if b]
            c, k, pid, ids = self.fx.tokens(v)
            out.append({"par": self.par_index(v), "sel": sel, "c": c, "i": ids, "e": self.fx.ste_tokens(v)})
        return out

    def do(self, e):
        op = e["op"]
        ev = dict(e)
        res = None
        if op == "subset":
            v = self.pool[e["a"] - 1]
            if e["inner"] and max(e["inner"]) > v.size:
                # the history addresses rows the view had when it was made (the specification's view still has them)
                self.raised = "view %d reports %d rows, the selection it was created with has at least %d: an earlier operation changed it" % (e["a"], v.size, max(e["inner"]))
                return False
            vec = np.zeros(v.size, dtype=bool)
            vec[[i - 1 for i in e["inner"]]] = True
            st, res = outcome(v.subset, vec)
        elif op == "combine":
            st, res = outcome(self.pool[e["a"] - 1].combine, self.pool[e["b"] - 1])
        elif op == "concat":
            st, res = outcome(ScreenSubset.concat, [self.pool[i - 1] for i in e["l"]])
        elif op == "invert":
            st, res = outcome(self.pool[e["a"] - 1].invert)
        elif op == "bymask":
            p = self.parents[e["p"] - 1]
            st, res = outcome(p.subset_observed if e["obs"] else p.subset_unobserved)
        elif op == "plate":          # e["id"] is the token of the plate NAME; look up that plate's id in this parent
            par = self.parents[e["p"] - 1]
            rid = [int(par.plate_ids[i]) for i in range(par.size) if self.fx.pi(str(par.plate_names[i])) == e["id"]]
            st, res = outcome(par.get_plate, rid[0] if rid else 10 ** 6)
        elif op == "unique":
            st, res = outcome(filter_dataset_to_unique_treatments, self.pool[e["a"] - 1])
        elif op == "to_screen":
            st, res = outcome(self.pool[e["a"] - 1].to_screen)
        ev.setdefault("refused", False)
        ev.setdefault("none", False)
        if st != "ok":
            if op in ("combine", "concat") and res.startswith("ValueError"):
                ev["refused"] = True
            else:
                self.raised = "%s raised: %s" % (op, res)
                return False
        elif res is None:
            ev["none"] = True
        elif op == "to_screen":
            self.parents.append(res)
            c, k, pid, ids = self.fx.tokens(res)
            ev.update({"newc": c, "newk": k, "newmask": [bool(x) for x in res.observation_mask],
                       "newpid": [self.fx.pi(str(x)) for x in res.plate_names], "newids": ids})
            self.pool.append(res.subset(np.ones(res.size, dtype=bool)))
        else:
            self.pool.append(res)
            if op == "unique":
                ev["s"] = [i + 1 for i, b in enumerate(res.selection_vector) if b]
        for k_, d in (("a", 1), ("b", 1), ("p", 1), ("id", 0), ("obs", True), ("inner", []), ("l", [1, 1, 1]), ("s", []),
                      ("newc", []), ("newk", []), ("newmask", []), ("newpid", []), ("newids", [])):
            ev.setdefault(k_, d)
        ev["pool"] = self.proj()
        ev["pste"] = [self.fx.ste_tokens(p) for p in self.parents]
        self.events.append(ev)
        return True


def fixtures(rnd, nrand):
    fs = [
        VFixture([(0, (1, 2), 0, 1), (0, (1, 2), 1, 0), (0, (2, 1), 1, 0), (1, (1, 0), 2, 0)], "dup-and-swapped"),
        VFixture([(0, (1, 0), 0, 0), (0, (0, 2), 0, 0), (0, (1, 0), 1, 1), (0, (3, 0), 1, 1)], "controls-and-neighbours"),
        VFixture([(0, (1, 1), 0, 0), (1, (1, 1), 0, 0), (1, (1, 1), 0, 0), (1, (1, 1), 0, 0)], "one-plate-all-unobserved"),
        VFixture([(0, (2, 3), 0, 1), (1, (2, 3), 1, 1), (2, (2, 3), 2, 1), (0, (2, 3), 2, 1)], "all-observed"),
        # a combination with replicated single-agent experiments: the derived single-agent effects are defined for every row
        VFixture([(0, (1, 2), 0, 1), (0, (1, 0), 0, 1), (0, (0, 2), 1, 0), (0, (1, 0), 1, 0)], "single-agent-replicates"),
    ]
    for i in range(nrand):
        n = rnd.randint(3, 5)
        npl = rnd.randint(1, 3)
        pobs = [rnd.random() < 0.4 for _ in range(npl)]
        rows = []
        for _ in range(n):
            p = rnd.randrange(npl)
            rows.append((rnd.randrange(2), (rnd.randrange(4), rnd.randrange(4)), p, pobs[p]))
        fs.append(VFixture(rows, "random-%d" % i))
    return fs


def _plate_ids_fix(fx):
    """pid tokens in the fixture are the real plate ids; the spec's GetPlate uses them"""
    return fx


def run(ctx):
    from harness import tlc
    from harness.tracecheck import validate
    rnd = random.Random(ctx.seed)
    fxs = fixtures(rnd, 1 if ctx.quick else 8)
    maxobjs = 4 if ctx.quick else 5
    seen = set()
    total = 0
    for fi, fx in enumerate(fxs):
        # the new parent's pid tokens are interned plate names; make parent ones consistent
        s0 = fx.screen()
        fj = json.loads(fx.to_json())
        fj["pid"] = [fx.pi(str(x)) for x in s0.plate_names]
        real_pid = {fx.pi(str(n)): int(i) for n, i in zip(s0.plate_names, s0.plate_ids)}
        fjson = json.dumps(fj)
        mo = maxobjs if fi < 2 else maxobjs - 1
        r = ctx.tlc("Views", tlc.cfg(constants={"MaxObjs": mo, "Export": True}, invariants=["WithinParent", "ObservedSplit", "MaterialisedSameRows", "ExportPath"],
                                     properties=["NoAliasing"], constraint="Bound", action_constraint="NoIdleRuns", view="View"),
                    note="fixture %s, pool<=%d" % (fx.name, mo), files={"fixture.json": fjson}, env={"FIXTURE_FILE": "fixture.json"},
                    coverage=True, workers=8)
        if r.violation:
            ctx.violation("design-level: Views violates %s" % r.violation, {"kind": "tlc", "tlc": r.violation_text[:3000]})
            continue
        seen |= {a for a in ACTIONS if r.coverage.get(a, (0, 0))[1] > 0 or r.coverage.get(a + "Any", (0, 0))[1] > 0
                 or (a == "Concat3" and r.coverage.get("ConcatAny", (0, 0))[1] > 0)}
        paths = [p["hist"] for p in r.by_tag("path") if p["hist"]]
        paths.sort(key=lambda h: -len(h))
        budget = 120 if ctx.quick else 1500
        pick = paths[:budget // 3] + rnd.sample(paths, min(len(paths), budget - budget // 3))
        worlds = []
        for h in pick:
            w = VWorld(fx)
            for e in h:
                e = {k: (list(v) if isinstance(v, (list, tuple)) else v) for k, v in e.items() if k not in ("refused", "none")}
                if not w.do(e):
                    break
            worlds.append(w)
        for _ in range(40 if ctx.quick else 400):
            worlds.append(_random_world(fx, rnd, real_pid))
        ok = []
        nraised = 0
        for w in worlds:
            ctx.evaluations += len(w.events)
            if w.raised:
                nraised += 1
            if w.raised and nraised <= 3:
                ctx.violation("fixture %s: %s after %s" % (fx.name, w.raised, [e["op"] for e in w.events]),
                              {"kind": "history", "fixture": fx.name, "ops": _ops(w)})
            if w.events:
                ok.append(w)
        total += len(pick)
        bad = validate(ctx, "TraceViews", [{"events": w.events} for w in ok], decide=None, next_="TNext", init="TInit",
                       constants={"MaxObjs": 99, "Export": False}, extra_files={"fixture.json": fjson}, note="fixture %s" % fx.name)
        for i, clause in bad[:3]:
            ctx.violation("fixture %s: real view operations rejected by TraceViews at '%s': %s" % (fx.name, clause, json.dumps(_ops(ok[i]))[:500]),
                          {"kind": "history", "fixture": fx.name, "ops": _ops(ok[i]), "clause": clause})
        if ok and not bad and fi == 0:
            from harness.tracecheck import selftest

            def corrupt(t):
                t["events"][-1]["pool"][0]["sel"] = t["events"][-1]["pool"][0]["sel"][:-1]
                return "one row removed from the logged selection of the first (untouched) view"
            selftest(ctx, "TraceViews", {"events": ok[0].events}, corrupt, decide=None, next_="TNext", init="TInit",
                     constants={"MaxObjs": 99, "Export": False}, extra_files={"fixture.json": fjson})
        if ok:
            ctx.sample({"fixture": fx.name, "ops": _ops(ok[0])[:5]})
    # the observed / unobserved views split the screen by its CURRENT mask: also after the mask changed (set_observed between two calls)
    for fx in fxs[:3]:
        scr = fx.screen()
        hist = []
        for step in range(4):
            st_u, u = outcome(scr.subset_unobserved)
            st_o, o = outcome(scr.subset_observed)
            m = np.asarray(scr.observation_mask, dtype=bool)
            ok_u = st_u == "ok" and ((u is None and m.all()) or (u is not None and np.array_equal(np.asarray(u.selection_vector, dtype=bool), ~m)))
            ok_o = st_o == "ok" and ((o is None and not m.any()) or (o is not None and np.array_equal(np.asarray(o.selection_vector, dtype=bool), m)))
            ctx.evaluations += 1
            if not (ok_u and ok_o):
                ctx.violation("fixture %s: after %s the observed / unobserved views do not split the screen by its mask %s" % (fx.name, hist or "construction", m.astype(int).tolist()),
                              {"kind": "mask-history", "fixture": fx.name, "history": hist})
                break
            un = sorted(set(int(x) for x in scr.plate_ids[~m]))
            if not un:
                break
            sel = scr.plate_ids == un[0]
            outcome(scr.set_observed, sel, np.full(int(sel.sum()), 0.5))
            hist.append("set_observed(plate %d)" % un[0])
    missing = [a for a in ACTIONS if a not in seen]
    if missing:
        raise tlc.TLCError("vacuity guard: Views actions never taken: %s" % missing)
    ctx.extra["spec_to_code_paths"] = total
    ctx.exhaustive = True


def _ops(w):
    return [{k: v for k, v in e.items() if k not in ("pool", "newc", "newk", "newmask", "newpid", "newids")} for e in w.events]


def _random_world(fx, rnd, real_pid):
    w = VWorld(fx)
    for _ in range(rnd.randint(1, 10)):
        n = len(w.pool)
        op = rnd.choice(["subset", "subset", "combine", "concat", "invert", "bymask", "plate", "unique", "to_screen"])
        a = rnd.randint(1, n)
        if op == "subset":
            sz = w.pool[a - 1].size
            e = {"op": op, "a": a, "inner": sorted(rnd.sample(range(1, sz + 1), rnd.randint(0, sz)))}
        elif op == "combine":
            e = {"op": op, "a": a, "b": rnd.randint(1, n)}
        elif op == "concat":
            e = {"op": op, "l": sorted([a, rnd.randint(1, n), rnd.randint(1, n)])}
        elif op == "invert":
            e = {"op": op, "a": a}
        elif op == "bymask":
            e = {"op": op, "p": rnd.randint(1, len(w.parents)), "obs": rnd.random() < 0.5}
        elif op == "plate":
            p = rnd.randint(1, len(w.parents))
            par = w.parents[p - 1]
            e = {"op": op, "p": p, "id": fx.pi(str(rnd.choice(list(par.plate_names))))}
        elif op == "unique":
            e = {"op": op, "a": a}
        else:
            if len(w.parents) >= 4 or w.pool[a - 1].size == 0:
                continue
            e = {"op": op, "a": a}
        if not w.do(e):
            break
    return w


def replay(ctx, rp):
    from harness.tracecheck import validate
    fx = [f for f in fixtures(random.Random(ctx.seed), 8) if f.name == rp["fixture"]][0]
    s0 = fx.screen()
    fj = json.loads(fx.to_json())
    fj["pid"] = [fx.pi(str(x)) for x in s0.plate_names]
    real_pid = {fx.pi(str(n)): int(i) for n, i in zip(s0.plate_names, s0.plate_ids)}
    w = VWorld(fx)
    for e in rp["ops"]:
        e = {k: v for k, v in e.items() if k not in ("refused", "none")}
        if not w.do(e):
            ctx.violation("replay: " + w.raised, rp)
            break
    bad = validate(ctx, "TraceViews", [{"events": w.events}], decide=None, next_="TNext", init="TInit",
                   constants={"MaxObjs": 99, "Export": False}, extra_files={"fixture.json": json.dumps(fj)})
    for i, clause in bad:
        ctx.violation("replay: rejected at '%s'" % clause, rp)
