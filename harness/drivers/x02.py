"""X02 (not one of the listed properties; DESIGN 11.6) - how the grid model reads a screen: unpack_data follows GridUnpack.tla.

A. TLC: GridUnpack.tla over all 225 rows (3 names x 5 dose classes, both slots): the transcription satisfies what the grid model relies on
   (no drug = -1, a lone drug comes first with its own concentration, a pair keeps its order, a present drug has a finite log-concentration).
B. spec -> code: every exported row, alone and inside random real screens (several samples and plates, observed and unobserved plates, custom
   control name, with and without the mask), through the real unpack_data; outputs compared row by row with the transcription's answer; the
   sample ids and the row selection (observed rows only when masked, in screen order) are compared with the screen."""
import math, random
import numpy as np

from batchie.data import Screen
from batchie.models.grid_helper import unpack_data
from harness import tlc
from harness.util import outcome

DOSE = {"neg": -0.5, "nzero": -0.0, "zero": 0.0, "lo": 0.1, "hi": 10.0}


def _tok(x):
    x = float(x)
    if math.isnan(x):
        return "nan"
    if x == -math.inf:
        return "ninf"
    return {-1.0: "m1", 1.0: "p1"}.get(x, "other:%r" % x)


def _screen(rows, rng, control):
    n = len(rows)
    nm = {0: control, 1: "drugA", 2: "drugB"}
    n_pl = rng.randrange(1, 4)
    plates = sorted(rng.randrange(n_pl) for _ in range(n))
    observed = {p: rng.random() < 0.6 for p in range(n_pl)}
    mask = np.array([observed[p] for p in plates], dtype=bool)
    return Screen(treatment_names=np.array([[nm[r["n1"]], nm[r["n2"]]] for r in rows], dtype=str),
                  treatment_doses=np.array([[DOSE[r["d1"]], DOSE[r["d2"]]] for r in rows], dtype=float),
                  observations=np.where(mask, 0.5, 0.0), observation_mask=mask,
                  sample_names=np.array(["s%d" % rng.randrange(3) for _ in range(n)], dtype=str),
                  plate_names=np.array(["p%d" % p for p in plates], dtype=str), control_treatment_name=control)


def run(ctx):
    rng = random.Random(ctx.seed)
    invs = ["NoDrugIsMinusOne", "LoneDrugComesFirst", "PairKeepsItsOrder", "PresentDrugHasFiniteConc", "SecondOnlyWithFirst", "SameDrugs", "Exp"]
    r = ctx.tlc("GridUnpack", tlc.cfg(spec="Spec", constants={"Export": True}, invariants=invs), note="all rows; export", allow_violation=False)
    cases = r.by_tag("unpack")
    if len(cases) != 225:
        raise tlc.TLCError("expected 225 exported rows, got %d" % len(cases))
    ctx.exhaustive = True
    screens = [[c] for c in cases] + [[rng.choice(cases) for _ in range(rng.randrange(2, 30))] for _ in range(150 if ctx.quick else 3000)]
    for cs in screens:
        control = rng.choice(["", "control", "DMSO"])
        scr = _screen([c["row"] for c in cs], rng, control)
        for use_mask in (True, False):
            o = outcome(lambda: unpack_data(scr, {"drugA": 0, "drugB": 1}, use_mask=use_mask))
            ctx.evaluations += 1
            rp = {"kind": "unpack", "rows": [c["row"] for c in cs], "control": control, "use_mask": use_mask, "mask": [bool(x) for x in scr.observation_mask]}
            if o[0] == "exc":
                ctx.violation("unpack_data raised %s on a screen of %d rows" % (o[1], len(cs)), rp)
                continue
            sid, i1, i2, l1, l2 = o[1]
            keep = [k for k in range(len(cs)) if scr.observation_mask[k] or not use_mask]
            if [int(x) for x in sid] != [int(scr.sample_ids[k]) for k in keep]:
                ctx.violation("unpack_data(use_mask=%s): sample ids are not those of the %s rows in screen order" % (use_mask, "observed" if use_mask else "screen's"), rp)
                continue
            for j, k in enumerate(keep):
                exp = cs[k]["out"]
                got = {"id1": int(i1[j]), "id2": int(i2[j]), "lc1": _tok(l1[j]), "lc2": _tok(l2[j])}
                # verdict: the ids, and the log-concentration of every PRESENT drug; what is left in the concentration of an absent slot is
                # the transcription's business only (reported as drift)
                rel = lambda d: (d["id1"], d["id2"], d["lc1"] if d["id1"] >= 0 else None, d["lc2"] if d["id2"] >= 0 else None)
                if got != exp and rel(got) == rel(exp):
                    if not ctx.extra.get("drift"):
                        print("NOTE model-drift property=X02 row %s: got %s, transcription %s (concentration of an absent slot)" % (cs[k]["row"], got, exp))
                    ctx.extra["drift"] = ctx.extra.get("drift", 0) + 1
                    continue
                if got != exp:
                    ctx.violation("unpack_data(use_mask=%s) row %s: got %s, GridUnpack.tla says %s" % (use_mask, cs[k]["row"], got, exp), rp)
                    break
    ctx.traces += len(screens)
    ctx.sample({"row": cases[17]["row"], "out": cases[17]["out"]})
    ctx.extra["screens"] = len(screens)
    ctx.assumptions += ["dose classes -0.5, -0.0, 0.0, 0.1, 10.0 stand for negative, zero and positive doses; two drugs and the control name"]


def replay(ctx, rp):
    run(ctx)
